"""
Equation-block generator (DESIGN.md 2.5).

A BlockSpec is a JSON-serialisable dict that is both the input of the solver (after render()) and the
ground truth for the oracles:

  eqs      [[name, rhs_text, kind]]      kind in sim / const / alias / leaf / t
  lags     [[lag_name, source_name, spelling]]
  exo      [[name, text, py_form, values]]   values = the floats the text denotes (None if unevaluable)
  ics      [[name, text]]
  maxtime  int
  tol      str or None
  cert     {'q': float (sup-norm contraction factor incl. lag feedback, of every row), 'lam': {name: Lipschitz sum},
            'feedforward': bool, 'family': str}
  layout   rendering choices (line order, spacing, comments)
"""
import math

from hypothesis import strategies as st

SIM_NAMES = ['x', 'x1', 'xx', 'y', 'y2', 'z', 'w', 'u', 'v', 'c1', 'inc', 'HH__F', 'GOV__T', 'BUS__SUP', 'a_b', 'x_1', '_w', '_s1', 'x0', 'K10', 'a00']
CONST_NAMES = ['p', 'p2', 'alpha', 'HH__AlphaFin']
ALIAS_NAMES = ['al', 'al2', 'same', 'HH__DEM', 'alx']
LEAF_NAMES = ['d', 'd2', 'out', 'GOV__BAL', 'dd']
EXO_NAMES = ['G', 'G2', 'r', 'GOV__DEM']


def dec(n, places=2):
    """int -> decimal literal with `places` decimals, e.g. dec(-125) = '-1.25'."""
    sign = '-' if n < 0 else ''
    n = abs(n)
    whole, frac = divmod(n, 10 ** places)
    return '%s%d.%0*d' % (sign, whole, places, frac)


def fmt_coef_term(coef_hundredths, var, style):
    c = abs(coef_hundredths)
    txt = dec(c)
    if c == 100:
        body = var if style != 2 else '1.0*' + var
    elif style == 0:
        body = txt + '*' + var
    elif style == 1:
        body = var + '*' + txt
    else:
        body = txt + ' * ' + var
    return ('-' if coef_hundredths < 0 else '+'), body


def join_signed(parts, sp):
    """parts: [(sign, body)] -> expression text."""
    out = ''
    for i, (sg, body) in enumerate(parts):
        if i == 0:
            out += ('-' if sg == '-' else '') + body
        else:
            out += sp + sg + sp + body
    return out if out else '0.0'


NONLINEAR = [
    # (template with %s for a variable, Lipschitz constant per unit coefficient)
    ('sqrt(abs(%s)+1.0)', 0.5),
    ('abs(%s)', 1.0),
    ('log(1.0+abs(%s))', 1.0),
    ('%s/(1.0+abs(%s))', 1.0),
    ('exp(-abs(%s))', 1.0),
    ('max(%s, 1.0)', 1.0),
    ('min(%s, 3.0)', 1.0),
    ('f_half(%s)', 0.5),
]

CTX_NAMES = ['cx', 'cx1', 'c_x', 'cxx']
CONTEXTS = ['%s**2', '-%s**2 + 1.0', '0.001*%s**3', '%s*%s', '1.0/(1.0 + %s**2)', '-%s', '3.0 - %s', '2.0 - -%s',
            'abs(%s)', '%s/2.0', '2.0*%s', '(%s)', '10.0/(1.0 + %s*%s)', '0.5**2*%s', '1.0 -%s',
            # defined in every period k >= 1 but not at k=0 when the variable starts at zero (the k=0 pass leaves such
            # a variable at its default, with or without reduction)
            'log(abs(%s) + k)', 'sqrt(%s*%s + k - 0.5)', 'log10(abs(%s) + 2.0*k)']

USER_FUNCS = {'f_half': (lambda v: 0.5 * v), 'f_cap': (lambda v: min(v, 10.0))}


def user_funcs(spec):
    """Functions to register for a spec; 'fscale' (hundredths) gives each spec its own f_half (|scale| <= 0.5)."""
    sc = spec.get('fscale') if isinstance(spec, dict) else None
    if sc is None:
        return dict(USER_FUNCS)
    c = sc / 100.0
    return {'f_half': (lambda v, c=c: c * v), 'f_cap': USER_FUNCS['f_cap']}


@st.composite
def system(draw, n_sim=(1, 6), q_hi=80, q_lo=0, feedforward=None, lags=(0, 3), exos=(0, 2), consts=(0, 2),
           aliases=(0, 0), leaves=(0, 0), const_mag=5000, horizon=(1, 5), ic_prob=0, nonlinear=False,
           gain=None, tols=('1e-6',), user_t=(False,), alias_ic=True, max_row_terms=3, time_terms=True, contexts=(0, 0)):
    """
    Affine (optionally mildly non-linear) system with certified sup-norm contraction factor.
    Coefficients are in hundredths; every row (leaves included) has sum |coef| <= q/100.
    `gain`: when given (an int in hundredths > 100) the simultaneous rows are scaled to make the system expansive.
    """
    n = draw(st.integers(*n_sim))
    sim = draw(st.permutations(SIM_NAMES))[:n]
    ff = draw(st.booleans()) if feedforward is None else feedforward
    n_lag = draw(st.integers(*lags))
    n_exo = draw(st.integers(*exos))
    n_const = draw(st.integers(*consts))
    maxtime = draw(st.integers(*horizon))
    # lag sources: mostly simultaneous variables, sometimes an exogenous series or a constant (lags of anything stored)
    lag_pool = list(sim) + list(sim) + EXO_NAMES[:n_exo] + CONST_NAMES[:n_const]
    lag_src = [draw(st.sampled_from(lag_pool)) for _ in range(n_lag)]
    lag_src = list(dict.fromkeys(lag_src))
    lag_spell = [draw(st.sampled_from(['(k-1)', '(k-1)', '(t-1)', ' (k -1 )'])) for _ in lag_src]
    lagn = ['LAG_' + s for s in lag_src]
    exon = EXO_NAMES[:n_exo]
    constn = CONST_NAMES[:n_const]
    q = draw(st.integers(q_lo, q_hi))
    eqs = []
    lam = {}
    sp = draw(st.sampled_from(['', ' ']))

    def row(name, idx, allowed_sim, budget, kind):
        m = draw(st.integers(0, max_row_terms))
        pool = list(allowed_sim) + lagn + exon + constn
        parts = []
        used = 0
        lam_row = 0.0
        if pool and m > 0 and budget > 0:
            for _ in range(m):
                var = draw(st.sampled_from(pool))
                remaining = budget - used
                if remaining <= 0:
                    break
                c = draw(st.integers(1, remaining)) * draw(st.sampled_from([1, 1, -1]))
                if var in exon or var in constn:
                    # exogenous / constants do not enter the contraction budget; allow larger coefficients
                    c = draw(st.integers(-200, 200)) or 1
                else:
                    used += abs(c)
                    lam_row += abs(c) / 100.0
                style = draw(st.integers(0, 2))
                if nonlinear and var not in exon and var not in constn and draw(st.integers(0, 2)) == 0:
                    tmpl, lip = draw(st.sampled_from(NONLINEAR))
                    body = dec(abs(c)) + '*' + (tmpl.replace('%s', var))
                    parts.append(('-' if c < 0 else '+', body))
                else:
                    parts.append(fmt_coef_term(c, var, style))
        if time_terms and kind != 'leaf' and draw(st.sampled_from([False, False, False, False, True])):
            # a small time trend: k is the step counter, t the (default or user-defined) time axis
            # (arithmetic on the time variables, also in the shape of the lag notation: 0.02*(t-1) is NOT a lag)
            parts.append(('+', draw(st.sampled_from(['0.01*k', '0.02*t', 'k*0.005', '0.02*(t-1)', '0.01*(k-1)',
                                                     '(t-1)*0.005']))))
        cst = draw(st.integers(-const_mag, const_mag))
        if cst != 0 or not parts:
            parts.insert(draw(st.integers(0, len(parts))), ('-' if cst < 0 else '+', dec(abs(cst))))
        lam[name] = lam_row
        eqs.append([name, join_signed(parts, sp), kind])

    for i, name in enumerate(sim):
        allowed = sim[:i] if ff else [s for s in sim]
        row(name, i, allowed, q, 'sim')
    if gain is not None:
        # replace the first row by an expansive self-/cross-reference
        tgt = sim[0]
        other = sim[-1]
        eqs[0] = [tgt, dec(gain) + '*' + other + sp + '+' + sp + '1.0', 'sim']
        if other != tgt:
            eqs[-1] = [other, dec(gain) + '*' + tgt + sp + '+' + sp + '2.0', 'sim']
        lam[tgt] = gain / 100.0
        lam[other] = gain / 100.0
    for cn in constn:
        eqs.append([cn, draw(st.sampled_from(['0.5', '.25', '2.0', '1.', '0.1', '3', '1e-1', '-0.75'])), 'const'])
    # aliases
    n_alias = draw(st.integers(*aliases))
    aliasn = []
    near_alias = set()
    for i in range(n_alias):
        name = ALIAS_NAMES[i]
        targets = sim + lagn + exon + constn + aliasn
        tgt = draw(st.sampled_from(targets))
        # plain aliases, and a few near-aliases (negated, bracketed) that are NOT the same variable under another name
        spell = draw(st.sampled_from(['%s', '%s', '+%s', ' %s ', '+ %s', '%s', '-%s', '(%s)', '- %s']))
        eqs.append([name, spell % tgt, 'alias'])
        lam[name] = 1.0
        aliasn.append(name)
        if spell.strip().startswith('-') or spell.startswith('('):
            near_alias.add(name)
    # make some simultaneous rows use the aliases instead of their targets (semantically equal systems differ textually)
    if aliasn:
        for e in eqs:
            if e[2] == 'sim' and draw(st.integers(0, 2)) == 0:
                al = draw(st.sampled_from(aliasn))
                if al in near_alias:
                    continue
                tgt = [x for x in eqs if x[0] == al][0][1].replace('+', '').strip()
                # textual swap of one whole-name occurrence, done on a token basis by the harness lexer
                from harness import expr as _expr
                toks = _expr.lex(e[1])
                if ('name', tgt) in toks and not (ff and tgt in sim and sim.index(tgt) >= sim.index(e[0])):
                    done = False
                    out = []
                    for kd, tx in toks:
                        if not done and kd == 'name' and tx == tgt:
                            out.append(al)
                            done = True
                        else:
                            out.append(tx)
                    e[1] = ' '.join(out) if sp else ''.join(out)
    # leaves (decorative): reference anything, nobody references them; a leaf may reference an earlier leaf (tree)
    n_leaf = draw(st.integers(*leaves))
    leafn = []
    for i in range(n_leaf):
        name = LEAF_NAMES[i]
        before = len(eqs)
        row(name, 0, sim + aliasn + leafn, q, 'leaf')
        leafn.append(name)
    # context leaves: one variable (preferably an alias) placed in a syntactic context where a purely textual
    # substitution of an expression for the name would change the meaning (powers, unary minus, products, quotients)
    for i in range(draw(st.integers(*contexts))):
        name = CTX_NAMES[i]
        var = draw(st.sampled_from(aliasn + aliasn + sim + lagn + constn)) if (aliasn or sim) else None
        if var is None:
            break
        tmpl = draw(st.sampled_from(CONTEXTS))
        eqs.append([name, tmpl.replace('%s', var), 'leaf'])
        lam[name] = 0.0
        leafn.append(name)
    # exogenous
    exo = []
    for en in exon:
        form = draw(st.sampled_from(['list', 'list', 'repeat', 'concat', 'tuple']))
        if form == 'repeat':
            v = draw(st.integers(-3000, 3000))
            extra = draw(st.integers(0, 3))
            text = '[%s,]*%d' % (dec(v), maxtime + 1 + extra)
            values = [v / 100.0] * (maxtime + 1 + extra)
        elif form == 'concat':
            v1, v2 = draw(st.integers(-3000, 3000)), draw(st.integers(-3000, 3000))
            n1 = draw(st.integers(1, maxtime + 1))
            n2 = maxtime + 1 - n1 + draw(st.integers(0, 2))
            text = '[%s]*%d + [%s,]*%d' % (dec(v1), n1, dec(v2), n2)
            values = [v1 / 100.0] * n1 + [v2 / 100.0] * n2
        else:
            vs = [draw(st.integers(-3000, 3000)) for _ in range(maxtime + 1 + draw(st.integers(0, 2)))]
            values = [v / 100.0 for v in vs]
            if form == 'tuple':
                text = '(' + ', '.join(dec(v) for v in vs) + ',)'
            else:
                text = '[' + ', '.join(dec(v) for v in vs) + ']'
        exo.append([en, text, form, values])
    # initial conditions
    ics = []
    if ic_prob:
        cands = sim + constn + aliasn + leafn
        for nm in cands:
            if nm in aliasn and not alias_ic:
                continue
            if draw(st.sampled_from([True] * ic_prob + [False] * (100 - ic_prob))):
                ics.append([nm, draw(st.sampled_from(['5.0', '0.0', '-2.5', '10', '0.125', '1e1', '3.', '0']))])
    tol = draw(st.sampled_from(list(tols)))
    ut = draw(st.sampled_from(list(user_t)))
    if ut:
        eqs.append(['t', draw(st.sampled_from(['k', '1950.0 + k', '2*k', 'k + 0.5'])), 't'])
    n_lines = len(eqs) + len(lag_src) + len(ics) + 2
    layout = {
        'perm': draw(st.permutations(list(range(len(eqs) + len(lag_src) + len(ics))))),
        'eqsp': draw(st.sampled_from(['=', ' = ', '= ', ' =', '  =  '])),
        'comments': draw(st.booleans()),
        'maxtime_first': draw(st.booleans()),
        # when the solver object is configured: attributes set before the text is parsed, after it, or text handed to
        # the constructor (all three are ordinary usage; the settings are read when the solve starts)
        'config': draw(st.sampled_from(['early', 'late', 'ctor'])),
    }
    q_eff = (gain / 100.0) if gain is not None else q / 100.0
    return {
        'eqs': eqs, 'lags': [[a, b, c] for a, b, c in zip(lagn, lag_src, lag_spell)], 'exo': exo, 'ics': ics,
        'maxtime': maxtime, 'tol': tol,
        'cert': {'q': q_eff, 'lam': lam, 'feedforward': bool(ff) and gain is None, 'family': 'expansive' if gain is not None else ('affine' if not nonlinear
                                                                                   else 'mild-nonlinear')},
        'layout': layout,
    }


def render(spec, marker='# Exogenous Variables', with_params=True):
    """BlockSpec -> equation-block text as accepted by EquationParser / EquationSolver."""
    lay = spec.get('layout', {})
    eqsp = lay.get('eqsp', ' = ')
    lines = []
    for name, rhs, kind in spec['eqs']:
        lines.append(name + eqsp + rhs)
    for lagn, src, spell in spec['lags']:
        lines.append(lagn + eqsp + src + spell)
    for name, text in spec['ics']:
        lines.append(name + '(0)' + eqsp + text)
    perm = lay.get('perm')
    if perm is not None and len(perm) == len(lines):
        lines = [lines[i] for i in perm]
    if lay.get('comments'):
        lines = [l + '  # [%d] note' % i if i % 2 == 0 else l for i, l in enumerate(lines)]
    head = []
    tail = []
    params = []
    if with_params:
        params.append('MaxTime' + eqsp + str(spec['maxtime']))
        if spec.get('tol') is not None:
            params.append('Err_Tolerance' + eqsp + spec['tol'])
    if lay.get('maxtime_first'):
        head = params
    else:
        tail = params
    exo_lines = [name + eqsp + text for name, text, form, values in spec['exo']]
    return '\n'.join(head + lines + ['', marker, ''] + exo_lines + tail) + '\n'


def equations_of(spec):
    return {name: rhs for name, rhs, kind in spec['eqs']}


def solve(spec, reduction=True, max_iter=None, tol_param=None, text=None, trace_step=None, steady=None, horizon_attr=None):
    """
    Run the real solver.  Returns (outcome, solver, exception) with outcome 'ok' or the exception class name.
    """
    from sfc_models.equation_solver import EquationSolver
    if text is None:
        text = render(spec)
    config = spec.get('layout', {}).get('config', 'early')
    if horizon_attr is not None and config == 'ctor':
        config = 'early'      # (the horizon override is read when the text is parsed: it has to be set before)

    def configure(es):
        for fn, f in user_funcs(spec).items():
            es.AddFunction(fn, f)
        if max_iter is not None:
            es.MaxIterations = max_iter
        if tol_param is not None:
            es.ParameterErrorTolerance = tol_param
        if trace_step is not None:
            es.TraceStep = trace_step
        if steady:
            es.ParameterSolveInitialSteadyState = True
            es.ParameterInitialSteadyStateMaxTime = 60

    es = None
    try:
        if config == 'ctor':
            es = EquationSolver(text, run_equation_reduction=reduction)
            configure(es)
        else:
            es = EquationSolver(run_equation_reduction=reduction)
            if horizon_attr is not None:
                es.MaxTime = horizon_attr
            if config == 'early':
                configure(es)
            es.ParseString(text)
            if config == 'late':
                configure(es)
        es.SolveEquation()
    except Exception as ex:
        return type(ex).__name__, es, ex
    return 'ok', es, None


def eval_env(spec, ts, k):
    """Environment of reported values at period k (plus user functions)."""
    env = {name: series[k] for name, series in ts.items() if len(series) > k}
    env.update(USER_FUNCS)
    env.update(user_funcs(spec))
    return env


def is_finite_number(v):
    return isinstance(v, (int, float)) and not isinstance(v, bool) and math.isfinite(v)
