"""
Reference runner for C17: executes ONE spec alone in a fresh interpreter and prints its series as JSON
(floats as hex strings, so the comparison in the parent is exact).
usage: python -m harness.c17_ref   < spec.json
"""
import json
import sys
import warnings


def run_item(item):
    """item: {'type': 'block', 'spec': BlockSpec, 'reduction': bool} or {'type': 'model', 'spec': c09 params}"""
    if item['type'] == 'block':
        from harness import blocks
        o, es, ex = blocks.solve(item['spec'], reduction=item['reduction'], steady=item.get('steady'),
                                 max_iter=item.get('max_iter'))
        return o, {k: list(v) for k, v in es.TimeSeries.items()}
    if item['type'] == 'econ':
        from harness import econ
        # alone = without the read-only queries and unrelated models the history interleaves with the construction
        alone = dict(item['spec'], probes=[])
        built = econ.build(alone, maxtime=alone['horizon'])
        o = 'ok' if built.error is None else type(built.error).__name__
        return o, {k: list(v) for k, v in built.model.EquationSolver.TimeSeries.items()}
    from harness.props import c17
    mod = c17.build_book_model(item['spec'])
    try:
        mod.main()
        o = 'ok'
    except Exception as ex:
        o = type(ex).__name__
    return o, {k: list(v) for k, v in mod.EquationSolver.TimeSeries.items()}


def encode(series):
    return {k: [float(x).hex() if isinstance(x, (int, float)) else repr(x) for x in v] for k, v in series.items()}


if __name__ == '__main__':
    warnings.simplefilter('ignore')
    item = json.load(sys.stdin)
    o, series = run_item(item)
    json.dump({'outcome': o, 'series': encode(series)}, sys.stdout)
