"""
Shared runner for the property checks (see DESIGN.md section 1 and 2.1).

A property module (harness/props/cXX.py) exposes

    PROPERTY_ID = 'Cxx'
    RULE        = text: how cases are generated and what makes one non-trivial
    ASSUMPTIONS = [text, ...]
    FAMILIES    = [Family, ...]

A Family couples a Hypothesis strategy producing a JSON-serialisable *spec*
with `run(spec)`, which executes the code under test and applies the oracle.
`run` returns a dict {'nontrivial': bool, 'labels': [...]} or raises

    Violation(bucket, message)   the property is broken on this spec
    Reject(reason)               the code refused the input loudly (counted, not a verdict)

Every random choice is made by the strategy; run(spec) is a pure function of the
spec and the code under test, which is what makes the JSON replay files work.
"""
import hashlib
import json
import os
import sys
import time
import traceback


class Violation(Exception):
    def __init__(self, bucket, message, signature=None):
        Exception.__init__(self, '%s: %s' % (bucket, message))
        self.bucket = bucket
        self.message = message
        self.signature = signature


class Reject(Exception):
    def __init__(self, reason):
        Exception.__init__(self, reason)
        self.reason = reason


class CaseTimeout(BaseException):
    """Raised by the per-case watchdog (BaseException: `except Exception` in the code under test must not swallow it)."""


class case_deadline(object):
    """
    Context manager: SIGALRM-based wall-clock limit for ONE generated case.  Generated cases take milliseconds; the limit
    (minutes) only exists so that code which has stopped terminating cannot hang a whole check.  What a timeout means is
    the family's decision: 'inconclusive' (counted as rejected) by default, a violation only where termination within a
    bounded number of steps is itself what the property states.
    """

    def __init__(self, seconds):
        self.seconds = seconds
        self.old = None

    def _fire(self, signum, frame):
        raise CaseTimeout()

    def __enter__(self):
        import signal
        import threading
        self.armed = hasattr(signal, 'SIGALRM') and threading.current_thread() is threading.main_thread() and self.seconds
        if self.armed:
            self.old = signal.signal(signal.SIGALRM, self._fire)
            signal.setitimer(signal.ITIMER_REAL, float(self.seconds))
        return self

    def __exit__(self, et, ev, tb):
        import signal
        if self.armed:
            signal.setitimer(signal.ITIMER_REAL, 0.0)
            signal.signal(signal.SIGALRM, self.old)
        return False


def run_case(fam, spec):
    """fam.run(spec) under the family's watchdog; a timeout becomes the family's Violation or a Reject."""
    try:
        with case_deadline(fam.case_timeout):
            return fam.run(spec)
    except CaseTimeout:
        if fam.timeout_bucket:
            raise Violation(fam.timeout_bucket, 'the case did not terminate within %d s of wall clock (cases of this family '
                                                'normally take milliseconds; the code under test bounds its own work by '
                                                'an iteration cap)' % fam.case_timeout)
        raise Reject('case timeout after %d s (inconclusive)' % fam.case_timeout)


class Family(object):
    """
    name      : str
    strategy  : callable returning a hypothesis strategy (called inside the worker)
    run       : callable(spec) -> {'nontrivial': bool, 'labels': [...]}
    quick / thorough : total number of generated cases per tier
    weight_shards : maximal number of worker processes to spread over
    case_timeout / timeout_bucket : wall-clock watchdog per case (seconds) and, if termination is part of the property,
                the violation bucket a timeout is reported under (default None: a timeout is inconclusive)
    """

    def __init__(self, name, strategy, run, quick, thorough, max_shards=16, doc='', case_timeout=600, timeout_bucket=None):
        self.case_timeout = case_timeout
        self.timeout_bucket = timeout_bucket
        self.name = name
        self.strategy = strategy
        self.run = run
        self.quick = quick
        self.thorough = thorough
        self.max_shards = max_shards
        self.doc = doc


def canonical(spec):
    return json.dumps(spec, sort_keys=True, separators=(',', ':'), default=str)


def spec_hash(spec):
    return hashlib.sha1(canonical(spec).encode('utf-8')).hexdigest()[:16]


def repo_root():
    return os.environ.get('VERIF_REPO', '/repo')


def verif_root():
    return os.path.dirname(os.path.dirname(os.path.abspath(__file__)))


def load_property(prop_id):
    import importlib
    return importlib.import_module('harness.props.' + prop_id.lower())


def get_family(mod, name):
    for f in mod.FAMILIES:
        if f.name == name:
            return f
    raise KeyError(name)


def quiet_repo_import():
    """Import sfc_models from the working tree, silencing its import-time noise."""
    import warnings
    warnings.simplefilter('ignore')
    root = repo_root()
    if root not in sys.path:
        sys.path.insert(0, root)
    import sfc_models  # noqa
    got = os.path.dirname(os.path.dirname(os.path.abspath(sfc_models.__file__)))
    if os.path.realpath(got) != os.path.realpath(root):
        raise RuntimeError('sfc_models imported from %s, expected %s' % (got, root))


# ----------------------------------------------------------------------------------
# Worker side
# ----------------------------------------------------------------------------------

def _settings(n, phases=None):
    from hypothesis import settings, HealthCheck, Phase, Verbosity
    if phases is None:
        phases = [Phase.generate]
    return settings(max_examples=n, database=None, deadline=None, derandomize=False,
                    report_multiple_bugs=False, suppress_health_check=list(HealthCheck),
                    phases=phases, verbosity=Verbosity.quiet, print_blob=False)


def run_shard(prop_id, family_name, n_cases, seed, shrink_budget_s=0.0):
    """
    Collect mode: run n_cases generated cases, never stop at a failure.
    Returns a plain dict (picklable).
    """
    t0 = time.time()
    quiet_repo_import()
    import hypothesis
    from hypothesis import given
    mod = load_property(prop_id)
    fam = get_family(mod, family_name)
    res = {
        'family': family_name, 'seed': seed, 'evaluations': 0, 'nontrivial': set(),
        'labels': {}, 'samples': [], 'failures': {}, 'rejected': {}, 'harness_errors': [],
    }

    timeouts = [0]

    def body(spec):
        if timeouts[0] >= 3:
            # three cases of this shard ran into the watchdog: do not spend hours on more of the same
            res['labels']['skipped-after-3-timeouts'] = res['labels'].get('skipped-after-3-timeouts', 0) + 1
            return
        res['evaluations'] += 1
        try:
            out = run_case(fam, spec)
        except Violation as v:
            if v.bucket == fam.timeout_bucket:
                timeouts[0] += 1
            lst = res['failures'].setdefault(v.bucket, [])
            size = len(canonical(spec))
            lst.append((size, spec, v.message, v.signature))
            lst.sort(key=lambda x: x[0])
            del lst[5:]
            lab = 'violation:' + v.bucket
            res['labels'][lab] = res['labels'].get(lab, 0) + 1
            return
        except Reject as r:
            if r.reason.startswith('case timeout'):
                timeouts[0] += 1
            res['rejected'][r.reason] = res['rejected'].get(r.reason, 0) + 1
            return
        if out is None:
            out = {}
        for lab in out.get('labels', ()):
            res['labels'][lab] = res['labels'].get(lab, 0) + 1
        if out.get('nontrivial'):
            h = spec_hash(spec)
            if h not in res['nontrivial']:
                res['nontrivial'].add(h)
                if len(res['samples']) < 3:
                    res['samples'].append(spec)

    test = hypothesis.seed(seed)(_settings(n_cases)(given(fam.strategy())(body)))
    try:
        test()
    except Exception:
        res['harness_errors'].append(traceback.format_exc())
    # Optional shrinking of each bucket, bounded by wall clock.
    if res['failures'] and shrink_budget_s > 0 and not res['harness_errors']:
        for bucket in list(res['failures'].keys()):
            small = shrink_bucket(fam, bucket, seed, n_cases, shrink_budget_s)
            if small is not None:
                lst = res['failures'][bucket]
                lst.append(small)
                lst.sort(key=lambda x: x[0])
                del lst[5:]
    res['nontrivial'] = sorted(res['nontrivial'])
    res['wall_s'] = time.time() - t0
    return res


def shrink_bucket(fam, bucket, seed, n_cases, budget_s):
    """
    Re-run the same seeded generation with Hypothesis' shrinker enabled, failing only for
    `bucket`.  After the wall-clock budget the body stops failing, so the shrinker winds
    down; we keep the smallest failing spec we have seen ourselves.
    """
    import hypothesis
    from hypothesis import given, Phase
    best = [None]
    deadline = time.time() + budget_s

    if bucket == fam.timeout_bucket:
        return None     # every failing example costs a full watchdog period: not worth shrinking

    def body(spec):
        if time.time() > deadline:
            return
        try:
            run_case(fam, spec)
        except Violation as v:
            if v.bucket != bucket:
                return
            size = len(canonical(spec))
            if best[0] is None or size <= best[0][0]:
                best[0] = (size, spec, v.message, v.signature)
            raise
        except Reject:
            return

    test = hypothesis.seed(seed)(
        _settings(n_cases, phases=[Phase.generate, Phase.shrink])(given(fam.strategy())(body)))
    try:
        test()
    except BaseException:
        pass
    return best[0]


def replay_spec(prop_id, family_name, spec):
    quiet_repo_import()
    mod = load_property(prop_id)
    fam = get_family(mod, family_name)
    return run_case(fam, spec)
