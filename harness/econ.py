"""
Economy generator (DESIGN.md 2.4): EconSpec -> sfc_models Model, through the public constructors only.

EconSpec (JSON-serialisable):
  zones:    [ {currency, kind: single|federated, countries: [CountrySpec]} ]
  external: none | first | middle | last          (where the ExternalSector is created)
  links:    [ {kind: gift|import, src: [zi, ci], dst: [zi, ci], ...} ]
  xr:       {currency: [decimal strings]}        exchange-rate paths
  horizon:  K
CountrySpec:
  code, role: full|central|member, ctor: Country|Region
  gov:  None | {kind: consolidated|treasury_cb|gold|gold_cb, code, cb_code, ic}   (gold_cb = Treasury + GoldStandardCentralBank)
  hh:   [ {code, kind: household|expectations, alpha_income, alpha_fin, weights, ic_F, lab_share} ]
  cap:  None | {code, alpha_income, alpha_fin}
  bus:  None | {code, kind: single|multi, margin, via_ctor}
  tax:  None | {code, rate}
  goods, labour: market codes;  money: None|{code}, deposit: None|{code, r: [..]}
"""
from fractions import Fraction

from hypothesis import strategies as st

from harness import gen


def dec4(n):
    return '%d.%04d' % (n // 10000, n % 10000)


def dec3(n):
    return '%d.%03d' % (n // 1000, n % 1000)


def dec2(n):
    sign = '-' if n < 0 else ''
    n = abs(n)
    return '%s%d.%02d' % (sign, n // 100, n % 100)


# --------------------------------------------------------------------------------------------------
# Strategies
# --------------------------------------------------------------------------------------------------
CURRENCIES = ['CAD', 'USD', 'EUR']
# currency codes of one model may contain each other, or be contained in the external sector's NUMERAIRE
CURRENCY_SETS = [CURRENCIES, CURRENCIES, ['EURO', 'EUR', 'RO'], ['AUSD', 'USD', 'SD'], ['ME', 'NUM', 'RAIRE'], ['USD', 'AUSD', 'AUSDX']]
COUNTRY_CODES = [['CA', 'CN', 'CS'], ['US', 'UN', 'UW'], ['EU', 'EN', 'EF']]


@st.composite
def path(draw, K, lo, hi, places=2, constant_ok=True):
    """A piecewise-constant list of K+1+extra decimal strings."""
    n = K + 1 + draw(st.sampled_from([0, 0, 1, 3]))
    scale = 10 ** places
    vals = []
    cur = draw(st.integers(lo, hi))
    for i in range(n):
        if i > 0 and draw(gen.chance(1, 3)):
            cur = draw(st.integers(lo, hi))
        vals.append(('-' if cur < 0 else '') + ('%d.%0*d' % (abs(cur) // scale, places, abs(cur) % scale)))
    return vals


@st.composite
def household(draw, code, K, allow_weights):
    h = {'code': code,
         'kind': draw(st.sampled_from(['household', 'expectations', 'household'])),
         'alpha_income': dec4(draw(st.integers(500, 9500))),
         'alpha_fin': dec4(draw(st.integers(500, 9500))),
         'weights': None, 'ic_F': None,
         # "Uses the TaxRate of this object, or the TaxRate of the sector (if it is defined)": sector-level rate
         'own_taxrate': draw(st.sampled_from([None, None, None, dec4(draw(st.integers(0, 6000)))]))}
    if allow_weights:
        wk = draw(st.sampled_from(['const', 'rate', 'const']))
        if wk == 'const':
            h['weights'] = {'form': draw(st.sampled_from(['dict', 'list'])), 'eqn': dec4(draw(st.integers(0, 9000)))}
        else:
            h['weights'] = {'form': draw(st.sampled_from(['dict', 'list'])),
                            'eqn': '%s + %s * {r}' % (dec4(draw(st.integers(1000, 6000))), dec2(draw(st.integers(0, 300))))}
    return h


@st.composite
def country(draw, code, role, K, gold_allowed, has_gov=True):
    c = {'code': code, 'role': role, 'ctor': draw(st.sampled_from(['Country', 'Region'])),
         'goods': 'GOOD', 'labour': 'LAB', 'gov': None, 'hh': [], 'cap': None, 'bus': None, 'tax': None,
         'money': None, 'deposit': None, 'bonds': None}
    if role in ('full', 'central'):
        kinds = ['consolidated', 'treasury_cb', 'consolidated']
        if gold_allowed:
            kinds.append('gold')
            kinds.append('gold_cb')
        gk = draw(st.sampled_from(kinds))
        gov = {'kind': gk, 'code': 'GOV' if gk not in ('treasury_cb', 'gold_cb') else 'TRE', 'cb_code': 'CB',
               'cb_via_ctor': draw(st.booleans()), 'ic': None}
        if gk in ('treasury_cb', 'gold_cb') and draw(gen.chance(1, 3)):
            gov['cash'] = draw(path(K, 0, 3000))          # Treasury money holdings: pre-declared DEM_MON made exogenous
        if draw(gen.chance(1, 4)):
            gov['redeclare_T'] = draw(st.sampled_from(['0.', '0', '0.0']))   # idiom of the examples: T re-declared before main()
        if gk in ('gold', 'gold_cb'):
            gov['gold_stock'] = dec2(draw(st.integers(0, 50000)))
        c['gov'] = gov
        c['tax'] = {'code': 'TF', 'rate': dec4(draw(st.integers(0, 6000)))}
        if gk in ('treasury_cb', 'gold_cb'):
            c['money'] = {'code': 'MON'}
            c['deposit'] = {'code': 'DEP', 'r': draw(path(K, 0, 800, places=4))}
        else:
            if draw(gen.chance(1, 3)):
                c['money'] = {'code': 'MON'}
            if draw(gen.chance(1, 3)):
                c['deposit'] = {'code': 'DEP', 'r': draw(path(K, 0, 800, places=4))}
    if c['deposit'] is not None and draw(gen.chance(1, 3)):
        c['shared_weights'] = True
    if c['deposit'] is not None and draw(gen.chance(1, 3)):
        # a second interest-bearing asset of the same issuer: households then allocate among three assets
        c['bonds'] = {'code': 'BND', 'r': draw(path(K, 0, 900, places=4)), 'weight': dec4(draw(st.integers(0, 4000)))}
    return c


def add_private(draw, c, K, deposit_available, multi_required=False):
    c['hh'] = [draw(household('HH', K, deposit_available))]
    if draw(gen.chance(1, 4)):
        h2 = draw(household('HH2', K, deposit_available))
        h2['lab_share'] = dec4(draw(st.integers(500, 6000)))
        c['hh'].append(h2)
    bk = 'multi' if multi_required else draw(st.sampled_from(['single', 'multi', 'single']))
    c['bus'] = {'code': 'BUS', 'kind': bk, 'margin': draw(st.sampled_from(['0.0', dec3(draw(st.integers(1, 600)))])),
                'via_ctor': draw(st.booleans())}
    if bk == 'single' and draw(gen.chance(1, 3)):
        c['cap'] = {'code': 'CAP', 'alpha_income': dec4(draw(st.integers(500, 9500))),
                    'alpha_fin': dec4(draw(st.integers(500, 9500))),
                    'own_taxrate': draw(st.sampled_from([None, None, dec4(draw(st.integers(0, 6000)))]))}


@st.composite
def economy(draw, zones=(1, 3), horizon=(3, 5), want_cross=None, gold=True, federated=True, ics=True, links=True):
    K = draw(st.integers(*horizon))
    nz = draw(st.integers(*zones))
    spec = {'zones': [], 'external': 'none', 'links': [], 'xr': {}, 'horizon': K}
    gold_left = 1 if gold and nz >= 1 else 0
    curs = draw(st.sampled_from(CURRENCY_SETS))
    for zi in range(nz):
        cur = curs[zi]
        kind = draw(st.sampled_from(['single', 'federated', 'single'])) if federated else 'single'
        zone = {'currency': cur, 'kind': kind, 'countries': []}
        codes = COUNTRY_CODES[zi]
        if kind == 'single':
            c = draw(country(codes[0], 'full', K, gold_left > 0))
            add_private(draw, c, K, c['deposit'] is not None)
            # (government demand is normally a purchase; sometimes the government is a net SELLER in some periods, large
            # enough for the market's total demand to turn negative)
            c['G'] = draw(path(K, draw(st.sampled_from([0, 0, 0, 0, 0, -15000])), 20000))
            zone['countries'].append(c)
        else:
            c0 = draw(country(codes[0], 'central', K, gold_left > 0))
            zone['countries'].append(c0)
            nm = draw(st.sampled_from([2, 1, 2]))
            if draw(gen.chance(1, 3)):
                c0['fin_markets_in'] = 1      # money / deposit / bond markets declared in the first member region
            for mi in range(nm):
                m = draw(country(codes[1 + mi], 'member', K, False))
                # REG2 idiom: a Region created without a currency takes the currency of the country declared before it
                m['default_currency'] = draw(st.booleans())
                add_private(draw, m, K, c0['deposit'] is not None)
                m['G'] = draw(path(K, draw(st.sampled_from([0, 0, 0, 0, 0, -15000])), 20000))
                zone['countries'].append(m)
        for c in zone['countries']:
            if c['gov'] and c['gov']['kind'] in ('gold', 'gold_cb'):
                gold_left -= 1
        spec['zones'].append(zone)
    # sector codes that are contained in another sector's code of the same country (B in CB, RE in TRE, OV in GOV, ...):
    # codes are matched whole, never by substring
    for zone in spec['zones']:
        for c in zone['countries']:
            if draw(gen.chance(1, 5)):
                nested = {'HH': 'B', 'HH2': 'RE', 'BUS': 'OV', 'CAP': 'C', 'TF': 'T'}
                for h in c['hh']:
                    h['code'] = nested.get(h['code'], h['code'])
                for key in ('bus', 'cap', 'tax'):
                    if c[key] is not None:
                        c[key]['code'] = nested.get(c[key]['code'], c[key]['code'])
                c['nested_codes'] = True
    # initial stocks: household wealth = - government wealth, per zone
    if ics and draw(gen.chance(1, 2)):
        for zone in spec['zones']:
            tot = 0
            for c in zone['countries']:
                for h in c['hh']:
                    if draw(st.booleans()):
                        v = draw(st.integers(100, 20000))
                        h['ic_F'] = dec2(v)
                        tot += v
            if tot:
                zone['countries'][0]['gov']['ic'] = dec2(-tot)
    # links
    all_c = [(zi, ci) for zi, z in enumerate(spec['zones']) for ci, c in enumerate(z['countries']) if c['hh']]
    need_ext = any(c['gov'] and c['gov']['kind'] in ('gold', 'gold_cb') for z in spec['zones'] for c in z['countries'])
    if links and len(all_c) >= 2:
        nl = draw(st.sampled_from([1, 2, 0, 3, 4]))
        for _ in range(nl):
            a = draw(st.sampled_from(all_c))
            b = draw(st.sampled_from([x for x in all_c if x != a]))
            if draw(st.booleans()):
                amount = draw(st.sampled_from([dec2(draw(st.integers(1, 2000))), '0.05*LAG_F', '0.1000*AfterTax', 'EXO']))
                amount_path = draw(path(K, 1, 3000)) if amount == 'EXO' else None
                name = 'GIFT%d' % len(spec['links'])
                earlier = [l for l in spec['links'] if l['kind'] == 'gift' and l['src'] == list(a)]
                if earlier and draw(st.booleans()):
                    # the same amount variable paid once more (to another or the same recipient): repeated flows accumulate
                    name, amount, amount_path = earlier[0]['name'], earlier[0]['amount'], earlier[0].get('amount_path')
                # amount 'EXO': the variable is declared with the usual placeholder and its values come as an exogenous path
                spec['links'].append({'kind': 'gift', 'src': list(a), 'dst': list(b), 'amount': amount, 'name': name,
                                      'amount_path': amount_path,
                                      'inc_src': draw(st.booleans()), 'inc_dst': draw(st.booleans())})
            else:
                # country a imports from the business of country b
                if any(l['kind'] == 'import' and l['src'] == list(a) and l['dst'] == list(b) for l in spec['links']):
                    continue
                spec['links'].append({'kind': 'import', 'src': list(a), 'dst': list(b),
                                      'mu': dec4(draw(st.integers(100, 3000))),
                                      'residual_explicit': draw(st.booleans())})
            if a[0] != b[0]:
                need_ext = True
    # which supplier of an importing market is the residual one (takes what the allocation rules leave): normally the
    # domestic firm; where a market has a single import link it may be the FOREIGN firm, the domestic one then gets a
    # fixed share of total supply
    for l in spec['links']:
        if l['kind'] == 'import':
            same = [x for x in spec['links'] if x['kind'] == 'import' and x['src'] == l['src']]
            l['residual'] = draw(st.sampled_from(['foreign', 'domestic', 'domestic'])) if len(same) == 1 else 'domestic'
            if l['residual'] == 'domestic' and len(same) == 1 and draw(gen.chance(1, 4)):
                # an import QUOTA given as a plain number (possibly zero), declared after the residual (home) supplier
                l['quota'] = draw(st.sampled_from([0.0, 0.0, 2.5, 10.0, 0]))
    # 'end': the external sector is created last of all, after every sector has been declared and wired
    if need_ext:
        spec['external'] = draw(st.sampled_from(['first', 'middle', 'last', 'end']))
    elif draw(gen.chance(1, 4)):
        spec['external'] = draw(st.sampled_from(['end', 'first', 'last', 'end']))    # unused external sector
    if spec['external'] != 'none':
        for z in spec['zones']:
            if draw(gen.chance(3, 4)):
                spec['xr'][z['currency']] = draw(path(K, 50, 300))
    # a government transfer booked directly with Sector.AddCashFlow() on both sides, at the moment both sectors exist
    # (i.e. in the middle of the declarations - other sectors, with their own income exclusions, are created afterwards)
    for z in spec['zones']:
        for c in z['countries']:
            if c['hh'] and z['countries'][0]['gov'] is not None and draw(gen.chance(1, 4)):
                c['transfer'] = {'amount': dec2(draw(st.integers(1, 3000))), 'income': draw(st.booleans())}
    # declaration order of the sectors: canonical, or a dependency-respecting shuffle driven by these keys
    spec['order_keys'] = draw(st.lists(st.integers(0, 11), min_size=6, max_size=14)) if draw(st.booleans()) else None
    # income exclusions registered by the user after the sectors exist ("declare everything, then customise"): the
    # government's or the firm's purchases are not to count in its income measure INC
    spec['user_exclusions'] = []
    if draw(gen.chance(1, 3)):
        for zi, z in enumerate(spec['zones']):
            for ci, c in enumerate(z['countries']):
                if c['hh'] and c['bus'] is not None and draw(st.booleans()):
                    spec['user_exclusions'].append([zi, ci, 'bus', 'labour'])
                if c['gov'] is not None and c['gov']['kind'] == 'consolidated' and z['kind'] == 'single' and draw(st.booleans()):
                    spec['user_exclusions'].append([zi, ci, 'gov', 'goods'])
    # read-only queries issued while the model is being put together (position = number of sector declarations made so
    # far, or 'end' = after all wiring): listing / looking up sectors, debug dumps.  They must not change anything.
    spec['probes'] = []
    for _ in range(draw(st.sampled_from([0, 0, 1, 2, 3]))):
        kind = draw(st.sampled_from(PROBE_KINDS))
        at = draw(st.sampled_from(['end', 1, 2, 3, 4, 5, 6, 8, 0, 'end']))
        if kind == 'loginfo' and spec['external'] == 'end':
            at = 'end'      # (a debug dump fixes the full codes; names requested later would go stale when EXT is added)
        spec['probes'].append({'at': at, 'kind': kind})
    if spec['external'] == 'end' and draw(gen.chance(1, 2)):
        # debug dump (which assigns full codes) while the external sector - one more "country" - does not exist yet
        spec['probes'].append({'at': 'end', 'kind': 'loginfo'})
    # an imported-goods supplier must be able to serve several markets when it is a multi-output firm; plain firms are
    # also allowed (the market then creates the supply variable itself)
    return spec


PROBE_KINDS = ['zone-sectors', 'zone-lookup', 'model-sectors', 'country-lookup', 'model-lookup', 'dump', 'loginfo',
               'zone-sectors', 'zone-lookup', 'shared-zone', 'other-model', 'other-model', 'cross-rate', 'cross-rate']


def _fresh(code):
    """An equal string that is a different object (codes that arrive from a file or are assembled on the spot are
    equal to, not identical with, the codes the sectors were created with)."""
    return ''.join(list(code))


def run_probe(kind, mod, out, allow_loginfo=True):
    """One read-only query through the public API.  Lookups of things that do not exist (yet) raise by design: ignored."""
    secs = [out.sectors[k] for k in sorted(out.sectors)]
    codes = [s.Code for s in secs] or ['HH']
    try:
        if kind == 'zone-sectors':
            for cz in mod.CurrencyZoneList:
                cz.GetSectors()
        elif kind == 'zone-lookup':
            for cz in mod.CurrencyZoneList:
                for code in codes[:2]:
                    try:
                        cz.LookupSector(code)
                    except Exception:
                        pass
        elif kind == 'model-sectors':
            mod.GetSectors()
        elif kind == 'country-lookup':
            for c in mod.CountryList:
                for code in codes[:2]:
                    if code in c:
                        c.LookupSector(code)
        elif kind == 'model-lookup':
            for code in codes[:2]:
                try:
                    mod.LookupSector(code)
                except Exception:
                    pass
        elif kind == 'dump':
            mod.DumpEquations()
        elif kind == 'shared-zone':
            if len(secs) >= 2:
                secs[0].IsSharedCurrencyZone(secs[-1])
                secs[-1].ShareParent(secs[0])
        elif kind == 'loginfo' and allow_loginfo:
            mod.LogInfo()
        elif kind == 'cross-rate':
            # asking the exchange-rate sector for the cross rates ahead of time (main() asks for them later anyway)
            if mod.ExternalSector is not None:
                curs = [cz.Currency for cz in mod.CurrencyZoneList if cz.Currency != 'NUMERAIRE']
                for a_ in curs:
                    for b_ in curs:
                        if a_ != b_:
                            mod.ExternalSector['XR'].GetCrossRate(a_, b_)
        elif kind == 'other-model':
            # an unrelated model is started (and left unfinished) while this one is being put together
            from sfc_models.models import Model, Country
            from sfc_models.sector import Sector
            m2 = Model()
            s2 = Sector(Country(m2, 'ZZ'), 'AA', 'sector of an unrelated model')
            s2.GetVariableName('F')
    except Exception:
        pass


# --------------------------------------------------------------------------------------------------
# Builder
# --------------------------------------------------------------------------------------------------
class Built(object):
    def __init__(self):
        self.model = None
        self.text = None
        self.sectors = {}      # (zi, ci, role-name) -> sector object
        self.countries = {}    # (zi, ci) -> Country
        self.error = None
        self.stage = None
        self.decl_order = []


def build(spec, order_seed='spec', maxtime=0, run=True, desc=None, rename=None, into=None, prefix_zone=None,
          zones_subset=None, hooks=None):
    """
    Build (and by default run main() with the given MaxTime) the economy.
      order_seed : None = canonical declaration order; a list of ints = keys for a dependency-respecting shuffle
      desc       : None or a function(label) -> description / long-name text
      rename     : None or dict mapping default codes to new codes, per (zi, ci): {'GOV': 'ADMIN', 'GOOD': 'FOOD', ...}
      into       : existing Model to embed into
      zones_subset: build only these zone indices
    """
    from sfc_models.models import Model, Country, Region
    from sfc_models.sector import Market
    from sfc_models.sector_definitions import (Household, HouseholdWithExpectations, Capitalists,
                                               ConsolidatedGovernment, Treasury, CentralBank, FixedMarginBusiness,
                                               FixedMarginBusinessMultiOutput, TaxFlow, MoneyMarket, DepositMarket,
                                               GoldStandardGovernment)
    from sfc_models.external import ExternalSector

    if isinstance(order_seed, str):
        # default: the declaration order carried by the spec itself (None = canonical order); C08 passes None and a key
        # list explicitly for its two builds
        order_seed = spec.get('order_keys')
    out = Built()
    mod = into if into is not None else Model()
    out.model = mod
    K = spec['horizon']
    zsel = list(range(len(spec['zones']))) if zones_subset is None else list(zones_subset)

    def nm(zi, ci, code):
        if rename is None:
            return code
        return rename.get((zi, ci), {}).get(code, rename.get('*', {}).get(code, code))

    def dsc(label):
        return desc(label) if desc is not None else ''

    def make_external():
        if mod.ExternalSector is None:
            ExternalSector(mod)

    try:
        _construct(spec, out, mod, zsel, nm, dsc, make_external, order_seed, hooks,
                   allow_loginfo=(into is None and zones_subset is None))
    except Exception as ex:       # a constructor or wiring call refused the model
        out.error = ex
        out.stage = 'construction'
        return out
    if run:
        K = spec['horizon']
        mod.MaxTime = K
        mod.EquationSolver.MaxTime = maxtime
        try:
            out.text = mod.main()
        except Exception as ex:
            out.error = ex
            out.stage = 'main'
            out.text = mod.FinalEquations
    return out


def _construct(spec, out, mod, zsel, nm, dsc, make_external, order_seed, hooks, allow_loginfo=True):
    from sfc_models.models import Model, Country, Region
    from sfc_models.sector import Market
    from sfc_models.sector_definitions import (Household, HouseholdWithExpectations, Capitalists,
                                               ConsolidatedGovernment, Treasury, CentralBank, FixedMarginBusiness,
                                               FixedMarginBusinessMultiOutput, TaxFlow, MoneyMarket, DepositMarket,
                                               GoldStandardGovernment)
    K = spec['horizon']
    if spec['external'] == 'first':
        make_external()
    # ---- countries
    zones_ok_for_default = True
    n_countries_total = sum(len(spec['zones'][zi]['countries']) for zi in zsel)
    made = 0
    for zi in zsel:
        zone = spec['zones'][zi]
        for ci, c in enumerate(zone['countries']):
            if spec['external'] == 'middle' and made == max(1, n_countries_total // 2):
                make_external()
            ctor = Region if c['ctor'] == 'Region' else Country
            code = nm(zi, ci, c['code'])
            ln = dsc('country %s' % code)
            if c.get('default_currency') and ci >= 1 and spec['external'] != 'middle' and zones_ok_for_default:
                out.countries[(zi, ci)] = Region(mod, code, long_name=ln)
            else:
                out.countries[(zi, ci)] = ctor(mod, code, long_name=ln, currency=zone['currency'])
            made += 1
    if spec['external'] in ('middle', 'last'):
        make_external()

    # ---- declarations: (key, deps, thunk)
    decls = []
    S = out.sectors

    def central_of(zi):
        return 0

    for zi in zsel:
        zone = spec['zones'][zi]
        for ci, c in enumerate(zone['countries']):
            cobj = out.countries[(zi, ci)]
            goods = nm(zi, ci, c['goods'])
            labour = nm(zi, ci, c['labour'])
            g = c['gov']
            if g is not None:
                gcode = nm(zi, ci, g['code'])
                if g['kind'] == 'consolidated':
                    decls.append(((zi, ci, 'gov'), [], (lambda cobj=cobj, gcode=gcode:
                                                       ConsolidatedGovernment(cobj, gcode, dsc('gov')))))
                elif g['kind'] == 'gold':
                    decls.append(((zi, ci, 'gov'), [], (lambda cobj=cobj, gcode=gcode, g=g:
                                                       GoldStandardGovernment(cobj, gcode, dsc('gov'),
                                                                              initial_gold_stock=float(g['gold_stock'])))))
                else:
                    decls.append(((zi, ci, 'gov'), [], (lambda cobj=cobj, gcode=gcode: Treasury(cobj, gcode, dsc('tre')))))
                    cbcode = nm(zi, ci, g['cb_code'])
                    if g['kind'] == 'gold_cb':
                        from sfc_models.sector_definitions import GoldStandardCentralBank
                        stock = float(g['gold_stock'])
                        if g['cb_via_ctor']:
                            decls.append(((zi, ci, 'cb'), [(zi, ci, 'gov')],
                                          (lambda cobj=cobj, cbcode=cbcode, zi=zi, ci=ci, stock=stock:
                                           GoldStandardCentralBank(cobj, cbcode, dsc('cb'), treasury=S[(zi, ci, 'gov')],
                                                                   initial_gold_stock=stock))))
                        else:
                            decls.append(((zi, ci, 'cb'), [], (lambda cobj=cobj, cbcode=cbcode, stock=stock:
                                                              GoldStandardCentralBank(cobj, cbcode, dsc('cb'),
                                                                                      initial_gold_stock=stock))))
                    elif g['cb_via_ctor']:
                        decls.append(((zi, ci, 'cb'), [(zi, ci, 'gov')],
                                      (lambda cobj=cobj, cbcode=cbcode, zi=zi, ci=ci:
                                       CentralBank(cobj, cbcode, dsc('cb'), treasury=S[(zi, ci, 'gov')]))))
                    else:
                        decls.append(((zi, ci, 'cb'), [], (lambda cobj=cobj, cbcode=cbcode:
                                                          CentralBank(cobj, cbcode, dsc('cb')))))
            for hi, h in enumerate(c['hh']):
                cls = Household if h['kind'] == 'household' else HouseholdWithExpectations
                hcode = nm(zi, ci, h['code'])
                decls.append(((zi, ci, 'hh%d' % hi), [],
                              (lambda cobj=cobj, cls=cls, hcode=hcode, h=h, goods=goods, labour=labour:
                               cls(cobj, hcode, dsc('hh'), alpha_income=float(h['alpha_income']),
                                   alpha_fin=float(h['alpha_fin']), consumption_good_name=goods, labour_name=labour))))
            if c['cap'] is not None:
                cp = c['cap']
                decls.append(((zi, ci, 'cap'), [],
                              (lambda cobj=cobj, cp=cp, goods=goods, zi=zi, ci=ci:
                               Capitalists(cobj, nm(zi, ci, cp['code']), dsc('cap'), alpha_income=float(cp['alpha_income']),
                                           alpha_fin=float(cp['alpha_fin']), consumption_good_name=goods))))
            if c['bus'] is not None:
                b = c['bus']
                bcode = nm(zi, ci, b['code'])
                if b['kind'] == 'single':
                    decls.append(((zi, ci, 'bus'), [],
                                  (lambda cobj=cobj, bcode=bcode, b=b, goods=goods, labour=labour:
                                   FixedMarginBusiness(cobj, bcode, dsc('bus'), profit_margin=float(b['margin']),
                                                       labour_input_name=labour, output_name=goods))))
                else:
                    if b['via_ctor']:
                        decls.append(((zi, ci, 'bus'), [(zi, ci, 'goods')],
                                      (lambda cobj=cobj, bcode=bcode, b=b, labour=labour, zi=zi, ci=ci:
                                       FixedMarginBusinessMultiOutput(cobj, bcode, dsc('bus'),
                                                                      profit_margin=float(b['margin']),
                                                                      labour_input_name=labour,
                                                                      market_list=[S[(zi, ci, 'goods')]]))))
                    else:
                        decls.append(((zi, ci, 'bus'), [],
                                      (lambda cobj=cobj, bcode=bcode, b=b, labour=labour:
                                       FixedMarginBusinessMultiOutput(cobj, bcode, dsc('bus'),
                                                                      profit_margin=float(b['margin']),
                                                                      labour_input_name=labour))))
            if c.get('transfer') is not None:
                def do_transfer(zi=zi, ci=ci, c=c):
                    gov_, hh_ = S[(zi, 0, 'gov')], S[(zi, ci, 'hh0')]
                    name_ = 'TRANSFER%d' % ci
                    gov_.AddVariable(name_, dsc('transfer to households'), c['transfer']['amount'])
                    gov_.AddCashFlow('-' + name_, is_income=False)
                    hh_.AddCashFlow('+' + gov_.GetVariableName(name_), is_income=c['transfer']['income'])
                    return None
                decls.append(((zi, ci, 'transfer'), [(zi, 0, 'gov'), (zi, ci, 'hh0')], do_transfer))
            if c['tax'] is not None:
                t = c['tax']
                decls.append(((zi, ci, 'tax'), [],
                              (lambda cobj=cobj, t=t, zi=zi, ci=ci, g=g:
                               TaxFlow(cobj, nm(zi, ci, t['code']), dsc('tax'), taxrate=float(t['rate']),
                                       taxes_paid_to=_fresh(nm(zi, ci, g['code']))))))
            if c['hh']:
                decls.append(((zi, ci, 'labour'), [], (lambda cobj=cobj, labour=labour: Market(cobj, labour, dsc('labour')))))
                decls.append(((zi, ci, 'goods'), [], (lambda cobj=cobj, goods=goods: Market(cobj, goods, dsc('goods')))))
            # financial-asset markets may be declared in another country of the zone than their issuer
            fobj = cobj
            if c.get('fin_markets_in') is not None and (zi, c['fin_markets_in']) in out.countries:
                fobj = out.countries[(zi, c['fin_markets_in'])]
            if c['money'] is not None:
                issuer = g['cb_code'] if g['kind'] in ('treasury_cb', 'gold_cb') else g['code']
                decls.append(((zi, ci, 'money'), [],
                              (lambda cobj=fobj, c=c, issuer=issuer, zi=zi, ci=ci:
                               MoneyMarket(cobj, nm(zi, ci, c['money']['code']), dsc('money'),
                                           issuer_short_code=_fresh(nm(zi, ci, issuer))))))
            if c.get('bonds') is not None:
                decls.append(((zi, ci, 'bonds'), [],
                              (lambda cobj=fobj, c=c, zi=zi, ci=ci, g=g:
                               DepositMarket(cobj, nm(zi, ci, c['bonds']['code']), dsc('bonds'),
                                             issuer_short_code=_fresh(nm(zi, ci, g['code']))))))
            if c['deposit'] is not None:
                decls.append(((zi, ci, 'deposit'), [],
                              (lambda cobj=fobj, c=c, zi=zi, ci=ci, g=g:
                               DepositMarket(cobj, nm(zi, ci, c['deposit']['code']), dsc('deposit'),
                                             issuer_short_code=_fresh(nm(zi, ci, g['code']))))))
    # ---- order: dependency-respecting shuffle driven by order_seed
    pending = list(decls)
    done = set()
    seq = []
    keys = list(order_seed) if order_seed is not None else None
    step = 0
    for pr in spec.get('probes', []):
        if pr['at'] == 0:
            run_probe(pr['kind'], mod, out, allow_loginfo)
    while pending:
        ready = [d for d in pending if all(dep in done for dep in d[1])]
        if keys is None:
            pick = ready[0]
        else:
            pick = ready[keys[step % len(keys)] % len(ready)]
            step += 1
        pending.remove(pick)
        made_ = pick[2]()
        if made_ is not None:
            S[pick[0]] = made_
        done.add(pick[0])
        seq.append(pick[0])
        for pr in spec.get('probes', []):
            if pr['at'] == len(seq):
                run_probe(pr['kind'], mod, out, allow_loginfo)
    out.decl_order = seq

    # ---- post-declaration wiring, fixed order
    shared_rule = {}
    for zi in zsel:
        zone = spec['zones'][zi]
        c0 = zone['countries'][0]
        for ci, c in enumerate(zone['countries']):
            g = c['gov']
            if g is not None and g['kind'] in ('treasury_cb', 'gold_cb') and not g['cb_via_ctor']:
                S[(zi, ci, 'cb')].Treasury = S[(zi, ci, 'gov')]
            if c['bus'] is not None and c['bus']['kind'] == 'multi' and not c['bus']['via_ctor']:
                S[(zi, ci, 'bus')].AddMarket(S[(zi, ci, 'goods')])
            for hi, h in enumerate(c['hh']):
                if h.get('own_taxrate') is not None:
                    S[(zi, ci, 'hh%d' % hi)].AddVariable('TaxRate', dsc('sector tax rate'), h['own_taxrate'])
            if c['cap'] is not None and c['cap'].get('own_taxrate') is not None:
                S[(zi, ci, 'cap')].AddVariable('TaxRate', dsc('sector tax rate'), c['cap']['own_taxrate'])
            # second household shares the labour market
            if len(c['hh']) > 1:
                lab = S[(zi, ci, 'labour')]
                lab.AddSupplier(S[(zi, ci, 'hh1')], '%s*SUP_%s' % (c['hh'][1]['lab_share'], lab.Code))
                lab.AddSupplier(S[(zi, ci, 'hh0')])
        # government spending
        gov = S[(zi, 0, 'gov')]
        g0 = c0['gov']
        if g0.get('redeclare_T') is not None:
            gov.AddVariable('T', dsc('taxes'), g0['redeclare_T'])
        if g0.get('cash') is not None and c0['money'] is not None:
            gov.SetExogenous('DEM_' + S[(zi, 0, 'money')].Code, '[' + ', '.join(g0['cash']) + ']')
        if zone['kind'] == 'single':
            gname = 'DEM_' + nm(zi, 0, c0['goods'])
            if gname not in gov.EquationBlock:
                gov.AddVariable(gname, dsc('gov demand'), '0.0')
            gov.SetExogenous(gname, '[' + ', '.join(c0['G']) + ']')
        else:
            terms = []
            for ci, c in enumerate(zone['countries']):
                if ci == 0:
                    continue
                vname = 'DEM_%s_%s' % (nm(zi, ci, c['code']), nm(zi, ci, c['goods']))
                gov.AddVariable(vname, dsc('gov demand in region'), '')
                gov.SetExogenous(vname, [float(x) for x in c['G']])
                terms.append(vname)
            gov.SetEquationRightHandSide('DEM_GOOD', ' + '.join(terms))
        # deposit rate and asset weightings
        if c0['deposit'] is not None:
            dep = S[(zi, 0, 'deposit')]
            dep.SetExogenous('r', '[' + ', '.join(c0['deposit']['r']) + ']')
            for ci, c in enumerate(zone['countries']):
                for hi, h in enumerate(c['hh']):
                    if h['weights'] is not None:
                        eqn = h['weights']['eqn'].replace('{r}', dep.GetVariableName('r'))
                        depcode = dep.Code
                        moncode = nm(zi, 0, c0['money']['code']) if c0['money'] else 'MON'
                        pairs = [(depcode, eqn)]
                        if c0.get('bonds') is not None:
                            # weights are kept small enough for the three shares to stay in [0, 1] is not required:
                            # the accounting identities hold for any weights
                            pairs.append((S[(zi, 0, 'bonds')].Code, c0['bonds']['weight']))
                        arg = dict(pairs) if h['weights']['form'] == 'dict' else list(pairs)
                        if c0.get('shared_weights') and h['weights']['form'] == 'dict':
                            # one portfolio rule (ONE dict object) handed to every household of the zone
                            arg = shared_rule.setdefault(zi, arg)
                        S[(zi, ci, 'hh%d' % hi)].GenerateAssetWeighting(arg, moncode)
            if c0.get('bonds') is not None:
                S[(zi, 0, 'bonds')].SetExogenous('r', '[' + ', '.join(c0['bonds']['r']) + ']')
        # user-registered income exclusions
        for ez, ec, role, what in spec.get('user_exclusions', []):
            if ez == zi and (ez, ec, role) in S:
                cc = zone['countries'][ec]
                mod.AddCashFlowIncomeExclusion(S[(ez, ec, role)], 'DEM_' + nm(ez, ec, cc[what]))
        # initial stocks
        for ci, c in enumerate(zone['countries']):
            for hi, h in enumerate(c['hh']):
                if h['ic_F'] is not None:
                    S[(zi, ci, 'hh%d' % hi)].AddInitialCondition('F', float(h['ic_F']))
            if c['gov'] is not None and c['gov']['ic'] is not None:
                S[(zi, ci, 'gov')].AddInitialCondition('F', float(c['gov']['ic']))
    # ---- links
    for li, l in enumerate(spec['links']):
        a, b = tuple(l['src']), tuple(l['dst'])
        if a[0] not in zsel or b[0] not in zsel:
            continue
        if l['kind'] == 'gift':
            src = S[(a[0], a[1], 'hh0')]
            dst = S[(b[0], b[1], 'hh0')]
            if l['name'] not in src.EquationBlock:
                if l['amount'] == 'EXO':
                    src.AddVariable(l['name'], dsc('gift'), '0.0')
                    src.SetExogenous(l['name'], '[' + ', '.join(l['amount_path']) + ']')
                else:
                    src.AddVariable(l['name'], dsc('gift'), l['amount'])
            mod.RegisterCashFlow(src, dst, l['name'], is_income_source=l['inc_src'], is_income_dest=l['inc_dst'])
        else:
            market = S[(a[0], a[1], 'goods')]
            hh = S[(a[0], a[1], 'hh0')]
            foreign = S[(b[0], b[1], 'bus')]
            mu = 'MU%d' % li
            if l.get('residual') == 'foreign':
                market.AddVariable(mu, dsc('share of the home producer'), l['mu'])
                market.AddSupplier(S[(a[0], a[1], 'bus')], '%s*SUP_%s' % (mu, market.Code))
                market.AddSupplier(foreign)
            elif l.get('quota') is not None:
                market.AddSupplier(S[(a[0], a[1], 'bus')])
                market.AddSupplier(foreign, l['quota'])
            else:
                market.AddVariable(mu, dsc('propensity to import'), l['mu'])
                market.AddSupplier(foreign, '%s*%s' % (mu, hh.GetVariableName('INC')))
                if l['residual_explicit']:
                    market.AddSupplier(S[(a[0], a[1], 'bus')])
            if spec['zones'][b[0]]['countries'][b[1]]['bus']['kind'] == 'multi':
                foreign.AddMarket(market)
    # ---- exchange rates
    def set_rates():
        for cur, vals in spec['xr'].items():
            if any(spec['zones'][zi]['currency'] == cur for zi in zsel):
                mod.ExternalSector['XR'].SetExogenous(cur, '[' + ', '.join(vals) + ']')

    if mod.ExternalSector is not None:
        set_rates()
    if hooks is not None:
        hooks(out)
    for pr in spec.get('probes', []):
        if pr['at'] == 'end' or (isinstance(pr['at'], int) and pr['at'] > len(seq)):
            run_probe(pr['kind'], mod, out, allow_loginfo)
    if spec['external'] == 'end' and mod.ExternalSector is None:
        make_external()
        set_rates()


def zone_F_names(built, zi_list=None):
    """currency -> list of F variable names of the sectors in that zone (public object API)."""
    out = {}
    for cz in built.model.CurrencyZoneList:
        names = []
        for s in cz.GetSectors():
            if s.HasF:
                names.append(s.GetVariableName('F'))
        out[cz.Currency] = names
    return out
