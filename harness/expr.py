"""
Expression kit of the harness (DESIGN.md 2.2).  Independent of sfc_models.utils:
  * lex()      hand-written regex lexer (the code under test uses the tokenize module)
  * evaluation over Fractions / affine forms on Python's own ast
"""
import ast
import math
import re
from fractions import Fraction

# ----------------------------------------------------------------------------------
# Lexer
# ----------------------------------------------------------------------------------

_NUMBER = r"""
    0[xX](?:_?[0-9a-fA-F])+ | 0[bB](?:_?[01])+ | 0[oO](?:_?[0-7])+ |
    (?: (?:[0-9](?:_?[0-9])*)? \. [0-9](?:_?[0-9])* | [0-9](?:_?[0-9])* \.? ) (?:[eE][+-]?[0-9](?:_?[0-9])*)? [jJ]?
"""
_TOKEN_RE = re.compile(r"""
    (?P<ws>\s+) |
    (?P<comment>\#[^\n]*) |
    (?P<string>(?:[rRbBuUfF]{0,2})(?:'''(?:\\.|[^\\])*?'''|\"\"\"(?:\\.|[^\\])*?\"\"\"|'(?:\\.|[^'\\\n])*'|"(?:\\.|[^"\\\n])*")) |
    (?P<number>""" + _NUMBER + r""") |
    (?P<name>[^\W\d]\w*) |
    (?P<op>\*\*=?|//=?|<<=?|>>=?|<=|>=|==|!=|->|:=|\+=|-=|\*=|/=|%=|&=|\|=|\^=|@=|[-+*/%&|^~<>()\[\]{},:.;@=!])
""", re.VERBOSE)


class LexError(ValueError):
    pass


def lex(s):
    """Return [(kind, text)] with kind in name/number/string/op; whitespace and comments dropped."""
    out = []
    pos = 0
    n = len(s)
    while pos < n:
        m = _TOKEN_RE.match(s, pos)
        if m is None or m.end() == pos:
            raise LexError('cannot lex %r at %d' % (s, pos))
        kind = m.lastgroup
        if kind not in ('ws', 'comment'):
            out.append((kind, m.group(kind)))
        pos = m.end()
    return out


def names(s):
    return [t for k, t in lex(s) if k == 'name']


# ----------------------------------------------------------------------------------
# Evaluation
# ----------------------------------------------------------------------------------

class NotAffine(Exception):
    pass


class NotExact(Exception):
    pass


def literal_fraction(text):
    t = text.replace('_', '')
    tl = t.lower()
    if tl.startswith(('0x', '0b', '0o')):
        return Fraction(int(t, 0))
    return Fraction(t)


class Parsed(object):
    __slots__ = ('src', 'tree')

    def __init__(self, src):
        self.src = src.strip()
        self.tree = ast.parse(self.src, mode='eval').body

    def literal_text(self, node):
        seg = ast.get_source_segment(self.src, node)
        return seg


_PARSE_CACHE = {}


def parse(src):
    p = _PARSE_CACHE.get(src)
    if p is None:
        p = Parsed(src)
        if len(_PARSE_CACHE) > 20000:
            _PARSE_CACHE.clear()
        _PARSE_CACHE[src] = p
    return p


class Affine(object):
    """const + sum coef[v]*v  with Fraction coefficients."""
    __slots__ = ('const', 'coef')

    def __init__(self, const=0, coef=None):
        self.const = Fraction(const)
        self.coef = coef if coef is not None else {}

    def is_const(self):
        return not self.coef

    def add(self, other, sign=1):
        coef = dict(self.coef)
        for k, v in other.coef.items():
            nv = coef.get(k, 0) + sign * v
            if nv == 0:
                coef.pop(k, None)
            else:
                coef[k] = nv
        return Affine(self.const + sign * other.const, coef)

    def scale(self, c):
        if c == 0:
            return Affine(0)
        return Affine(self.const * c, {k: v * c for k, v in self.coef.items()})

    def __repr__(self):
        return 'Affine(%s, %s)' % (self.const, self.coef)


def _num(node, parsed):
    v = node.value
    if isinstance(v, bool) or not isinstance(v, (int, float)):
        raise NotExact('constant %r' % (v,))
    if isinstance(v, int):
        return Fraction(v)
    text = parsed.literal_text(node)
    try:
        return literal_fraction(text)
    except (ValueError, TypeError, ZeroDivisionError):
        return Fraction(v)


def affine_eval(src, known, free=None):
    """
    Evaluate expression text to an Affine form.  `known` maps names to Fractions;
    any other name is a free variable (restricted to `free` when given, else NameError).
    """
    parsed = parse(src) if isinstance(src, str) else src

    def ev(node):
        if isinstance(node, ast.Constant):
            return Affine(_num(node, parsed))
        if isinstance(node, ast.Name):
            if node.id in known:
                return Affine(known[node.id])
            if free is not None and node.id not in free:
                raise NameError(node.id)
            return Affine(0, {node.id: Fraction(1)})
        if isinstance(node, ast.UnaryOp):
            a = ev(node.operand)
            if isinstance(node.op, ast.USub):
                return a.scale(-1)
            if isinstance(node.op, ast.UAdd):
                return a
            raise NotAffine('unary')
        if isinstance(node, ast.BinOp):
            a = ev(node.left)
            b = ev(node.right)
            if isinstance(node.op, ast.Add):
                return a.add(b)
            if isinstance(node.op, ast.Sub):
                return a.add(b, -1)
            if isinstance(node.op, ast.Mult):
                if a.is_const():
                    return b.scale(a.const)
                if b.is_const():
                    return a.scale(b.const)
                raise NotAffine('product')
            if isinstance(node.op, ast.Div):
                if b.is_const():
                    if b.const == 0:
                        raise ZeroDivisionError('division by zero')
                    return a.scale(1 / b.const)
                raise NotAffine('quotient')
            if isinstance(node.op, ast.Pow):
                if a.is_const() and b.is_const() and b.const.denominator == 1 and abs(b.const) <= 64:
                    if a.const == 0 and b.const < 0:
                        raise ZeroDivisionError('0 ** negative')
                    return Affine(a.const ** int(b.const))
                raise NotAffine('power')
            if isinstance(node.op, (ast.FloorDiv, ast.Mod)) and a.is_const() and b.is_const():
                if b.const == 0:
                    raise ZeroDivisionError('division by zero')
                return Affine(a.const // b.const if isinstance(node.op, ast.FloorDiv) else a.const % b.const)
            raise NotAffine('operator')
        if isinstance(node, ast.Compare):
            vals = [ev(node.left)] + [ev(c) for c in node.comparators]
            if all(v.is_const() for v in vals):
                import operator as _op
                table = {ast.Lt: _op.lt, ast.LtE: _op.le, ast.Gt: _op.gt, ast.GtE: _op.ge, ast.Eq: _op.eq, ast.NotEq: _op.ne}
                ok = True
                for (x, y), o in zip(zip(vals, vals[1:]), node.ops):
                    if type(o) not in table:
                        raise NotAffine('comparison')
                    ok = ok and table[type(o)](x.const, y.const)
                return Affine(1 if ok else 0)
            raise NotAffine('comparison')
        if isinstance(node, ast.Call) and isinstance(node.func, ast.Name) and not node.keywords:
            args = [ev(x) for x in node.args]
            if all(x.is_const() for x in args):
                vals = [x.const for x in args]
                if node.func.id == 'max' and len(vals) >= 2:
                    return Affine(max(vals))
                if node.func.id == 'min' and len(vals) >= 2:
                    return Affine(min(vals))
                if node.func.id == 'abs' and len(vals) == 1:
                    return Affine(abs(vals[0]))
                if node.func.id == 'float' and len(vals) == 1:
                    return Affine(vals[0])
            raise NotAffine('call')
        raise NotAffine(type(node).__name__)

    return ev(parsed.tree)


def frac_eval(src, env):
    a = affine_eval(src, env, free=())
    return a.const


def list_eval(src):
    """
    Evaluate an exogenous-series expression such as '[0.,] + [20.,] * 105' or '(1, 2.5)'
    to a list of Fractions (or a scalar Fraction for a bare number), exactly.
    """
    parsed = parse(src)

    def ev(node):
        if isinstance(node, (ast.List, ast.Tuple)):
            out = []
            for e in node.elts:
                v = ev(e)
                if isinstance(v, list):
                    raise NotExact('nested list')
                out.append(v)
            return out
        if isinstance(node, ast.BinOp):
            a = ev(node.left)
            b = ev(node.right)
            if isinstance(node.op, ast.Add):
                if isinstance(a, list) and isinstance(b, list):
                    return a + b
                if not isinstance(a, list) and not isinstance(b, list):
                    return a + b
                raise NotExact('list + scalar')
            if isinstance(node.op, ast.Mult):
                if isinstance(a, list) and not isinstance(b, list) and b.denominator == 1:
                    return a * int(b)
                if isinstance(b, list) and not isinstance(a, list) and a.denominator == 1:
                    return b * int(a)
                if not isinstance(a, list) and not isinstance(b, list):
                    return a * b
                raise NotExact('bad list product')
            if isinstance(node.op, ast.Sub) and not isinstance(a, list) and not isinstance(b, list):
                return a - b
            if isinstance(node.op, ast.Div) and not isinstance(a, list) and not isinstance(b, list):
                return a / b
            raise NotExact('operator')
        if isinstance(node, ast.UnaryOp) and isinstance(node.op, (ast.USub, ast.UAdd)):
            v = ev(node.operand)
            if isinstance(v, list):
                raise NotExact('-list')
            return -v if isinstance(node.op, ast.USub) else v
        if isinstance(node, ast.Constant):
            return _num(node, parsed)
        raise NotExact(type(node).__name__)

    return ev(parsed.tree)


MATH_ENV = {k: getattr(math, k) for k in dir(math) if not k.startswith('_')}


def float_eval(src, env):
    """Plain Python semantics (what an equation *means*): eval with the math functions visible."""
    g = dict(MATH_ENV)
    g['__builtins__'] = {'max': max, 'min': min, 'abs': abs, 'float': float, 'sum': sum, 'pow': pow,
                         'round': round}
    return eval(compile(src.strip(), '<expr>', 'eval'), g, dict(env))
