"""
Hypothesis strategies shared by several properties: names, numeric literals, expression text.
All strategies produce plain JSON-serialisable data (strings, lists, dicts).
"""
import os

from hypothesis import strategies as st

# A pool in which names are prefixes / suffixes of one another and of number tails.
NAME_POOL = ['x', 'x1', 'xx', 'x_1', 'x_000', 'e5', 'E', 'e', 'j', 'J', 'a', 'b', 'ab', 'a_b', 'ba', 'y', 'yy',
             'LAG_x', 'LAG_y', 'HH__F', 'HH__F1', 'H__F', '_12__F', '_1__F', '_12__F1', 'b1', 'o17', 'xF', 'F', 'k',
             't', 'X', 'x0', 'l', 'O', 'b101', 'xE', 'e_5', 'E3',
             # ordinary names that float() would accept as numbers
             'inf', 'nan', 'infinity', 'Infinity', 'NaN', 'INF',
             # identifiers are not ASCII-only
             '\u03b1', '\u03b11', '\u03b1\u03b2', '\u03b8', '\u0394', '\u03b2', '\u00e9pargne']

FUNCS = ['max', 'min', 'abs', 'sqrt', 'exp', 'log', 'float']

NUMBER_LITERALS = ['0', '1', '2', '3', '10', '1.', '0.', '.5', '0.5', '2.5', '1e5', '1E-3', '1e+5', '1.e2', '.5e1', '1.e5', '2.E3', '3.e0',
                   '0x1F', '0Xff', '0b101', '0o17', '1_000', '1_0.5_0', '1_0e1_0', '00', '007.5', '1.5e-3', '12345678901234567890',
                   '0.1', '0.25', '3.0', '100.', '1e0', '0xe5', '0XE', '1e5_0', '0b1_01', '0.0']
IMAG_LITERALS = ['2j', '1.5J', '1e5j']

SPACES = ['', '', ' ', '  ']


def numbers(with_imag=False):
    pool = NUMBER_LITERALS + (IMAG_LITERALS if with_imag else [])
    return st.sampled_from(pool)


def simple_decimal(lo=-50, hi=50, places=2):
    """Decimal literal strings such as '3', '-2.5', '0.75' (exactly representable as Fractions)."""
    def fmt(n):
        scale = 10 ** places
        sign = '-' if n < 0 else ''
        n = abs(n)
        whole, frac = divmod(n, scale)
        if frac == 0:
            return '%s%d.0' % (sign, whole)
        return ('%s%d.%0*d' % (sign, whole, places, frac)).rstrip('0')
    return st.integers(lo * 10 ** places, hi * 10 ** places).map(fmt)


@st.composite
def expression(draw, names, max_leaves=8, funcs=FUNCS, ops=('+', '-', '*', '/', '**', '//', '%'),
               comparisons=True, strings=True, lists=True, lags=True, imag=False, number_st=None):
    """
    Expression *text* over the given names.  Built bottom-up; every produced string is a
    syntactically valid Python expression.
    """
    if number_st is None:
        number_st = numbers(imag)
    name_st = st.sampled_from(names)
    sp = st.sampled_from(SPACES)

    def atom():
        kind = draw(st.integers(0, 9))
        if kind <= 5:
            return draw(name_st)
        return draw(number_st)

    def build(budget, depth):
        if budget <= 1 or depth > 4:
            return atom()
        kind = draw(st.integers(0, 19))
        if kind <= 8:
            op = draw(st.sampled_from(ops))
            s1, s2 = draw(sp), draw(sp)
            if op == '**':
                # exponent is a small atom: the value oracle evaluates the text, and huge integer powers never end
                a = build(budget - 1, depth + 1)
                b = draw(st.one_of(name_st, st.sampled_from(['2', '3', '0.5', '-1', '.5', '1e0', '-2'])))
                if draw(st.booleans()):
                    a = '(' + a + ')'
                return a + s1 + op + s2 + b
            left = draw(st.integers(1, budget - 1))
            a = build(left, depth + 1)
            b = build(budget - left, depth + 1)
            if op in ('*', '/', '//', '%'):
                if draw(st.booleans()):
                    a = '(' + a + ')'
                if draw(st.booleans()):
                    b = '(' + b + ')'
            return a + s1 + op + s2 + b
        if kind <= 10:
            return '(' + draw(sp) + build(budget, depth + 1) + draw(sp) + ')'
        if kind <= 12:
            pre = draw(st.sampled_from(['-', '+', '- ', '-(', '+(']))
            inner = build(budget, depth + 1)
            return pre + inner + (')' if pre.endswith('(') else '')
        if kind <= 15 and funcs:
            fn = draw(st.sampled_from(funcs))
            nargs = 1 if fn in ('abs', 'sqrt', 'exp', 'log', 'float') else 2
            args = [build(max(1, (budget - 1) // nargs), depth + 1) for _ in range(nargs)]
            if strings and draw(chance(1, 4)):
                args.append(draw(st.sampled_from(['"x"', "'x + y'", '"a fool x1"', "'e5'", '"HH__F"', "'k-1'", '"f (x)"',
                                                  "'rate (x) in pct'", '"x  ,y"', "'( x )'", '"a ( b"', "'x #1'", '"x=1"',
                                                  "'1e5 +x'"])))
            return fn + draw(sp) + '(' + (',' + draw(sp)).join(args) + ')'
        if kind == 16 and lists:
            n = draw(st.integers(1, 3))
            elts = [build(max(1, (budget - 1) // n), depth + 1) for _ in range(n)]
            txt = '[' + (',' + draw(sp)).join(elts) + draw(st.sampled_from(['', ','])) + ']'
            # always subscripted: a bare list times an integer literal could allocate without bound
            txt += draw(sp) + '[' + str(draw(st.integers(0, n - 1))) + ']'
            return txt
        if kind == 17 and lags:
            return draw(name_st) + draw(st.sampled_from(['(k-1)', ' (k -1 )', '(t-1)', '(k - 1)']))
        if kind == 18 and comparisons:
            op = draw(st.sampled_from(['<', '<=', '>', '>=', '==', '!=']))
            left = draw(st.integers(1, budget - 1))
            return build(left, depth + 1) + draw(sp) + op + draw(sp) + build(budget - left, depth + 1)
        return atom()

    # (sampled_from: st.integers favours the small end, and one-atom expressions exercise little)
    return build(draw(st.sampled_from(list(range(max_leaves, 0, -1)))), 0)


def chance(num, den):
    """True with probability ~num/den (sampled_from is close to uniform; st.integers is biased to small values)."""
    return st.sampled_from([False] * (den - num) + [True] * num)


def deep():
    """True in the thorough tier: generators may draw larger sizes (more variables, longer histories, longer horizons)."""
    return os.environ.get('VERIF_TIER', 'quick') == 'thorough'


def size(quick, thorough):
    return thorough if deep() else quick
