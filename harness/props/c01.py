"""
C01 - every generated model is stock-flow consistent in each currency.
Generator: harness.econ.economy (EconSpec).  Oracle: exact rational solution of the emitted equations
(harness.refsolve); per currency zone sum of changes in F plus the FX intermediary's net position == 0 exactly.
"""
from fractions import Fraction

from hypothesis import strategies as st

from harness.core import Family, Violation, Reject
from harness import econ, refsolve, expr

PROPERTY_ID = 'C01'
RULE = ('EconSpecs: 1-3 currency zones, each a single country or a federated zone (central government region + 1-2 member '
        'regions); consolidated government, treasury + central bank (with money and deposit markets) or gold-standard '
        'government; Household / HouseholdWithExpectations, optional second household sharing the labour market, optional '
        'Capitalists beside a FixedMarginBusiness with margin, single- or multi-output firms; optional money/deposit '
        'markets with constant or rate-dependent portfolio weights; gifts (constant, share of lagged wealth, share of '
        'after-tax income; income flags varied) and imports within and across zones through an ExternalSector created '
        'before, between or after the countries; time-varying non-unit exchange rates; optional initial stocks; currency codes that may contain one another; '
        'user-registered income exclusions; the external sector created before, between, after the countries or last of all; '
        'read-only queries (sector listings / lookups, dumps, LogInfo, an unrelated Model() being started) issued at generated '
        'points of the construction. The final '
        'text of Model.main() is solved exactly over Fractions for 3-5 periods. Non-trivial: at least two sectors with '
        'non-zero change in F in a checked period and one of: cross-zone link, capitalists with dividends, non-zero deposit '
        'interest, market with several suppliers, federated zone. Distinct: sha1 of the spec.')
ASSUMPTIONS = [
    'two complete countries sharing one currency are outside the quantifier (two TaxFlows would tax twice by design)',
    'periods k>=2 are checked when initial stocks are imposed, k>=1 otherwise (the k=0 state of the reference solve is '
    'the stated initial conditions, exogenous[0] and zero otherwise)',
    'non-affine systems (none are generated here) would be counted as rejected',
]


@st.composite
def case(draw):
    from harness import gen
    return draw(econ.economy(horizon=gen.size((3, 5), (3, 8))))


def has_ics(spec):
    for z in spec['zones']:
        for c in z['countries']:
            if c['gov'] is not None and c['gov'].get('ic') is not None:
                return True
            for h in c['hh']:
                if h['ic_F'] is not None:
                    return True
    return False


def solve_spec(spec, **kw):
    built = econ.build(spec, **kw)
    if built.error is not None:
        raise Reject('model refused: %s: %s' % (type(built.error).__name__, str(built.error)[:80]))
    try:
        system = refsolve.parse_final(built.text)
    except refsolve.ParseProblem as ex:
        raise Violation('C01/final-text-unreadable', 'final equations cannot be read: %s' % ex)
    try:
        sol = system.solve(spec['horizon'])
    except refsolve.ParseProblem as ex:
        raise Violation('C01/final-text-open', 'final equations are not closed: %s' % ex)
    return built, system, sol


def classify(spec):
    labels = ['zones:%d' % len(spec['zones'])]
    feats = set()
    for z in spec['zones']:
        if z['kind'] == 'federated':
            feats.add('federated')
        for c in z['countries']:
            if c['gov'] is not None:
                feats.add('gov:' + c['gov']['kind'])
            if c['cap'] is not None:
                feats.add('capitalists')
            if c['bus'] is not None:
                feats.add('bus:' + c['bus']['kind'])
            if c['deposit'] is not None:
                feats.add('deposit')
            if c.get('bonds') is not None:
                feats.add('bonds')
            if c['money'] is not None:
                feats.add('money')
            for h in c['hh']:
                feats.add('hh:' + h['kind'])
                if h['weights'] is not None:
                    feats.add('weights')
            if len(c['hh']) > 1:
                feats.add('two-households')
            if c.get('nested_codes'):
                feats.add('nested-sector-codes')
    for l in spec['links']:
        cross = l['src'][0] != l['dst'][0]
        feats.add(('cross-' if cross else 'intra-') + l['kind'])
    if spec['external'] != 'none':
        feats.add('external:' + spec['external'])
    if has_ics(spec):
        feats.add('initial-stocks')
    for pr in spec.get('probes', []):
        feats.add('probe:' + pr['kind'])
    if spec.get('probes'):
        feats.add('probes')
    if spec.get('user_exclusions'):
        feats.add('user-exclusions')
    if spec['zones'] and spec['zones'][0]['currency'] not in ('CAD', 'USD', 'EUR'):
        feats.add('related-currency-codes')
    return labels + sorted(feats), feats


def run(spec):
    built, system, sol = solve_spec(spec)
    labels, feats = classify(spec)
    K = spec['horizon']
    if not sol.ok():
        st_ = [s for s in sol.status if s not in ('given', 'unique')]
        if st_ and st_[0] == 'nonaffine':
            raise Reject('non-affine system')
        raise Reject('reference solve: ' + (st_[0] if st_ else 'short'))
    first = 2 if has_ics(spec) else 1
    mod = built.model
    moving = 0
    for cz in mod.CurrencyZoneList:
        cur = cz.Currency
        fnames = [s.GetVariableName('F') for s in cz.GetSectors() if s.HasF]
        if not fnames:
            continue
        net_name = None
        if mod.ExternalSector is not None:
            net_name = mod.ExternalSector['FX'].GetVariableName('NET_' + cur)
        for k in range(first, K + 1):
            tot = Fraction(0)
            nmove = 0
            for f in fnames:
                d = sol.values[k][f] - sol.values[k - 1][f]
                tot += d
                if d != 0:
                    nmove += 1
            net = sol.values[k][net_name] if net_name is not None and net_name in sol.values[k] else Fraction(0)
            moving = max(moving, nmove)
            if tot + net != 0:
                raise Violation('C01/zone-not-consistent',
                                'currency %s, period %d: sum of changes in financial assets %s + FX position %s = %s != 0 '
                                '(sectors %r)' % (cur, k, float(tot), float(net), float(tot + net), fnames))
    interesting = bool(feats & {'federated', 'capitalists', 'cross-gift', 'cross-import', 'intra-import', 'two-households'}) or \
        ('deposit' in feats and 'weights' in feats)
    return {'nontrivial': moving >= 2 and interesting, 'labels': labels}


FAMILIES = [Family('economies', case, run, quick=640, thorough=12000)]

MANIFEST_INFO = {
    'level_text': 'Generated-program exploration: random model topologies are built through the public constructors, the '
                  'emitted equation text is solved exactly (rational arithmetic) by an independent reference solver, and the '
                  'per-currency accounting identity is checked as an equality of rational numbers in every period.',
    'design_ref': 'DESIGN.md section 3, C01',
    'level_note': 'Trusted: harness reference solver (tested against the book models and the real solver); the public object '
                  'API for listing the sectors of a zone.',
    'technique': 'property-based testing over generated model programs (exact reference-solver oracle, accounting invariant)',
}
