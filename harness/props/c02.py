"""
C02 - whatever the solver returns satisfies the submitted equations.
Code under test: EquationSolver (ParseString, SolveEquation) with reduction on/off.
Oracle: the reported values are substituted back into the harness's own copy of the block (the BlockSpec):
        finiteness; exogenous/lag identities exact; derived-only variables exact under reduction;
        every other equation within 4*tol*(1+Lambda_v)*max(1,|x|_inf) (DESIGN.md C02 derivation).
"""
import math

from hypothesis import strategies as st

from harness.core import Family, Violation, Reject
from harness import blocks, expr

PROPERTY_ID = 'C02'
# (solver objects are configured before the text is parsed, after it, or get the text through the constructor: layout.config)
RULE = ('BlockSpecs of four families: certified contractions (affine and mildly non-linear rows: sqrt, abs, log, '
        'x/(1+|x|), exp, min, max, a user function), 1-8 simultaneous variables, lags, exogenous lists, constants, '
        'aliases and leaf (decorative) variables, tolerance 1e-3..1e-10 via the text or ParameterErrorTolerance, cap '
        '1..1000, reduction on/off, horizon 1-6; expansive systems with gain 1.5..1e4 (overflow to inf/NaN); overflow '
        'makers x = x*x + c, 1e200*y; slowly converging systems under small caps. Non-trivial: >= 3 simultaneous '
        'variables with a cycle, or an expansive/overflow member; and horizon >= 2 reached or the divergence observed. '
        'Distinct: sha1 of the spec.')
RULE = RULE + (' Input shapes added after the seeded-change rounds (DESIGN.md section 8): ' + 'two solver objects alive at once with their own function under one name; a recursive block whose exp()/** raises OverflowError for good; time terms spelled (t-1)/(k-1); the solver configured before parsing, after it, or through the constructor.')
ASSUMPTIONS = [
    'arithmetic-valued right-hand sides only (no boolean/complex values)',
    'Lambda_v is the generator-certified Lipschitz sum of row v; the bound follows from the stop rule '
    '(sum of absolute-or-relative changes <= tol, optional half step)',
    'an exception from the solver is an acceptable outcome for this property (C11 judges which exception)',
]

TOLS = ['1e-3', '1e-4', '1e-6', '1e-8', '1e-10', '.001', '1E-5']


@st.composite
def contraction_case(draw):
    from harness import gen
    spec = draw(blocks.system(n_sim=gen.size((1, 8), (1, 14)), q_hi=80, lags=(0, 3), exos=(0, 2), consts=(0, 2), aliases=(0, 2),
                              leaves=gen.size((0, 2), (0, 4)), horizon=gen.size((1, 6), (1, 10)), ic_prob=15, nonlinear=draw(st.booleans()),
                              tols=TOLS, user_t=(False, False, True)))
    spec['reduction'] = draw(st.booleans())
    spec['max_iter'] = draw(st.sampled_from([None, None, None, 1000, 30, 5, 1]))
    spec['tol_param'] = draw(st.sampled_from([None, None, None, 1e-5, 1e-9, 0.0]))
    return spec


@st.composite
def diverging_case(draw):
    kind = draw(st.sampled_from(['gain', 'gain', 'square', 'huge', 'oscillate', 'leaf-div0', 'exp-overflow']))
    if kind == 'exp-overflow':
        # a recursive block in which exp() of a growing stock leaves the float range for good in some period: the
        # evaluation raises OverflowError (not an inf value), while everything else in the period settles at once
        step = draw(st.sampled_from([150.0, 200.0, 120.0]))
        T = draw(st.sampled_from([6, 7, 5]))
        eqs = [['w', 'LAG_w + %r' % step, 'sim'], ['z', draw(st.sampled_from(['exp(w)', '2.0**w', 'exp(w) + 1.0'])), 'sim'],
               ['s', draw(st.sampled_from(['z/(1.0 + z)', '0.5*z', 'w + 1.0'])), draw(st.sampled_from(['sim', 'leaf']))]]
        if draw(st.booleans()):
            eqs.append(['u', '0.5*s + 1.0', 'sim'])
        spec = {'eqs': eqs, 'lags': [['LAG_w', 'w', '(k-1)']], 'exo': [], 'ics': [], 'maxtime': T,
                'tol': draw(st.sampled_from(['1e-6', '1e-4'])), 'layout': {'eqsp': ' = ', 'perm': None,
                                                                           'config': draw(st.sampled_from(['early', 'late', 'ctor']))},
                'cert': {'family': kind, 'q': 99.0, 'feedforward': True,
                         'lam': {'w': None, 'z': None, 's': None, 'u': None}}}
        spec['reduction'] = draw(st.booleans())
        spec['max_iter'] = None
        spec['tol_param'] = None
        return spec
    if kind == 'leaf-div0':
        # a derived-only ratio whose denominator (an exogenous series) is exactly zero in one period
        spec = draw(blocks.system(n_sim=(1, 3), q_hi=50, lags=(0, 1), exos=(0, 1), consts=(0, 0), aliases=(0, 0),
                                  leaves=(0, 1), horizon=(2, 4), tols=TOLS))
        T = spec['maxtime']
        p0 = draw(st.integers(1, T))
        vals = [1.0 + i for i in range(T + 1)]
        vals[p0] = 0.0
        spec['exo'].append(['Z0', repr(vals), 'list', vals])
        first = spec['eqs'][0][0]
        spec['eqs'].append(['ratio', draw(st.sampled_from(['1.0/Z0', first + '/Z0', '(' + first + ' - 1.0)/(2.0*Z0)'])), 'leaf'])
        spec['cert']['family'] = kind
        spec['cert']['lam']['ratio'] = None
        spec['layout']['perm'] = None
        spec['reduction'] = draw(st.sampled_from([True, True, False]))
        spec['max_iter'] = None
        spec['tol_param'] = None
        return spec
    if kind == 'gain':
        gain = draw(st.sampled_from([150, 200, 1000, 100000, 1000000, 120, 101]))
        spec = draw(blocks.system(n_sim=(1, 4), q_hi=50, lags=(0, 2), exos=(0, 1), consts=(0, 1), aliases=(0, 1),
                                  leaves=(0, 2), horizon=(1, 4), gain=gain, tols=TOLS))
    else:
        spec = draw(blocks.system(n_sim=(1, 3), q_hi=50, lags=(0, 1), exos=(0, 1), consts=(0, 0), aliases=(0, 1),
                                  leaves=(0, 2), horizon=(1, 4), tols=TOLS))
        first = spec['eqs'][0][0]
        if kind == 'square':
            spec['eqs'][0][1] = '%s*%s + %s' % (first, first, draw(st.sampled_from(['2.0', '1.0', '0.5', '10.'])))
        elif kind == 'huge':
            spec['eqs'][0][1] = '1e200*%s + 1.0' % first
            spec['eqs'].append(['hh', '1e200*%s' % first, 'leaf'])
        else:
            spec['eqs'][0][1] = '-%s*%s + 1.0' % (draw(st.sampled_from(['1.0', '1.5', '3.0', '1e3'])), first)
        spec['cert']['family'] = kind
        spec['cert']['lam'][first] = None
        spec['cert']['q'] = 99.0
    spec['reduction'] = draw(st.booleans())
    spec['max_iter'] = draw(st.sampled_from([None, None, 1000, 30, 400]))
    spec['tol_param'] = None
    return spec


def check_returned(spec, es, reduction, bucket_prefix='C02'):
    """The oracle proper; raises Violation.  Shared with other properties that solve blocks."""
    ts = es.TimeSeries
    T = spec['maxtime']
    eqs = blocks.equations_of(spec)
    tol = spec['tol_param'] if spec.get('tol_param') is not None else float(spec['tol'] if spec.get('tol') else '1e-8')
    # (i) finiteness, lengths
    for name, series in ts.items():
        for k, v in enumerate(series):
            if not blocks.is_finite_number(v):
                raise Violation(bucket_prefix + '/non-finite-reported',
                                'solve returned normally but %s[%d] = %r (family %s)' %
                                (name, k, v, spec['cert']['family']))
    for name in list(eqs) + [l[0] for l in spec['lags']] + [e[0] for e in spec['exo']]:
        if name not in ts:
            raise Violation(bucket_prefix + '/variable-missing', 'variable %s is missing from the results' % name)
        if len(ts[name]) != T + 1:
            raise Violation(bucket_prefix + '/length', '%s has %d values, horizon+1 = %d' % (name, len(ts[name]), T + 1))
    # (ii) exogenous and lags exact
    for name, text, form, values in spec['exo']:
        if values is not None and list(ts[name]) != list(values[:T + 1]):
            raise Violation(bucket_prefix + '/exogenous-changed', '%s reported %r, supplied %r' %
                            (name, ts[name], values[:T + 1]))
    for lagn, src, spell in spec['lags']:
        for k in range(1, T + 1):
            if ts[lagn][k] != ts[src][k - 1]:
                raise Violation(bucket_prefix + '/lag', '%s[%d] = %r but %s[%d] = %r' %
                                (lagn, k, ts[lagn][k], src, k - 1, ts[src][k - 1]))
    # which variables are derived-only in the harness's own reading of the block
    referenced = set()
    for name, rhs in eqs.items():
        referenced.update(expr.names(rhs))
    for lagn, src, spell in spec['lags']:
        referenced.add(src)
    ic_names = set(n for n, _ in spec['ics'])
    all_defined = set(eqs) | set(l[0] for l in spec['lags']) | set(e[0] for e in spec['exo'])
    # Derived-only = what the solver itself set aside (public attribute Parser.Decoration); such a variable must
    # equal its ORIGINAL equation evaluated at the reported values exactly.
    exact = set(v for v, _ in es.Parser.Decoration if v in eqs)
    lam = spec['cert']['lam']
    worst = 0.0
    for k in range(1, T + 1):
        env = blocks.eval_env(spec, ts, k)
        scale = max([1.0] + [abs(v) for nm, v in env.items() if isinstance(v, (int, float))])
        for name, rhs in eqs.items():
            try:
                want = expr.float_eval(rhs, env)
            except Exception as ex:
                raise Violation(bucket_prefix + '/equation-unevaluable-at-result',
                                '%s = %s cannot be evaluated at the reported values of period %d: %r' % (name, rhs, k, ex))
            got = ts[name][k]
            if name in exact:
                if got != want and not (isinstance(want, float) and math.isnan(want)):
                    raise Violation(bucket_prefix + '/derived-not-exact',
                                    'derived-only %s = %s: reported %r, equation gives %r at k=%d (reduction on)' %
                                    (name, rhs, got, want, k))
                continue
            lv = lam.get(name, 1.0)
            if lv is None:
                lv = 2.0 * scale + 1e200 if '1e200' in rhs else 2.0 * scale + 10.0
            bound = 4.0 * tol * (1.0 + lv) * scale
            resid = abs(got - want)
            if not resid <= bound:
                raise Violation(bucket_prefix + '/residual',
                                '%s = %s at k=%d: reported %r, equation gives %r; residual %.3g > bound %.3g '
                                '(tol %g, Lambda %.3g, scale %.3g, family %s, reduction %s)' %
                                (name, rhs, k, got, want, resid, bound, tol, lv, scale, spec['cert']['family'], reduction))
            if bound > 0:
                worst = max(worst, resid / bound)
    return worst


def run(spec):
    outcome, es, ex = blocks.solve(spec, reduction=spec['reduction'], max_iter=spec['max_iter'],
                                   tol_param=spec['tol_param'])
    fam = spec['cert']['family']
    labels = ['family:' + fam, 'reduction:%s' % spec['reduction'], 'outcome:' + outcome]
    n_sim = len([e for e in spec['eqs'] if e[2] == 'sim'])
    if outcome != 'ok':
        # loud failure with one of the documented error families (classes, not class names: a subclass is fine)
        if isinstance(ex, (ValueError, ArithmeticError)):
            nt = fam not in ('affine', 'mild-nonlinear')
            return {'nontrivial': nt, 'labels': labels}
        raise Violation('C02/unexpected-exception', 'solver raised %s: %s on a well-formed block' % (outcome, ex))
    worst = check_returned(spec, es, spec['reduction'])
    if worst > 0.5:
        labels.append('residual>0.5bound')
    nontrivial = (fam not in ('affine', 'mild-nonlinear')) or \
                 (n_sim >= 3 and not spec['cert']['feedforward'] and spec['maxtime'] >= 2)
    return {'nontrivial': nontrivial, 'labels': labels}


# ---------------------------------------------------------------------------------------------- economies
@st.composite
def economy_case(draw):
    from harness import econ
    return draw(econ.economy(zones=(1, 2), horizon=(2, 3)))


def run_economy(spec):
    """Second corpus with realistic structure: the final text of a generated economy, solved by the real solver."""
    from fractions import Fraction
    from harness import econ, refsolve
    K = spec['horizon']
    built = econ.build(spec, maxtime=K)
    if built.error is not None:
        name = type(built.error).__name__
        if name in ('ConvergenceError', 'ValueError'):
            return {'nontrivial': False, 'labels': ['outcome:' + name]}
        raise Reject('model refused: ' + name)
    ts = built.model.EquationSolver.TimeSeries
    system = refsolve.parse_final(built.text)
    tol = float(system.tol or '1e-8')
    for name, series in ts.items():
        if len(series) != K + 1:
            raise Violation('C02/economy-length', '%s has %d values, horizon+1 = %d' % (name, len(series), K + 1))
        for k, v in enumerate(series):
            if not blocks.is_finite_number(v):
                raise Violation('C02/non-finite-reported', 'economy solved normally but %s[%d] = %r' % (name, k, v))
    exo_vals = system.exo_values(K)
    decoration = set(v for v, _ in built.model.EquationSolver.Parser.Decoration)
    worst = 0.0
    for k in range(1, K + 1):
        for v, vals in exo_vals.items():
            if ts[v][k] != float(vals[k]):
                raise Violation('C02/exogenous-changed', 'economy: %s[%d] = %r, supplied %r' % (v, k, ts[v][k], float(vals[k])))
        for lv, src in system.lags.items():
            if ts[lv][k] != ts[src][k - 1]:
                raise Violation('C02/lag', 'economy: %s[%d] != %s[%d]' % (lv, k, src, k - 1))
        env = {name: series[k] for name, series in ts.items()}
        scale = max([1.0] + [abs(x) for x in env.values()])
        prev = {name: Fraction(series[k - 1]) for name, series in ts.items()}
        try:
            known, forms, nonaffine = system.period_forms(k, prev, exo_vals)
        except Exception:
            raise Reject('harness cannot linearise the economy')
        for name, rhs in system.eqs.items():
            want = expr.float_eval(rhs, env)
            got = ts[name][k]
            if name in decoration:
                if got != want:
                    raise Violation('C02/derived-not-exact', 'economy: derived-only %s = %s: reported %r, equation gives %r at k=%d' %
                                    (name, rhs, got, want, k))
                continue
            if name in forms:
                lam = float(sum(abs(c) for c in forms[name].coef.values()))
            elif name in known:
                lam = 0.0
            else:
                continue      # non-affine row (none generated); no certified Lipschitz constant
            bound = 4.0 * tol * (1.0 + lam) * scale
            resid = abs(got - want)
            if not resid <= bound:
                raise Violation('C02/residual', 'economy: %s = %s at k=%d: reported %r, equation gives %r; residual %.3g > bound '
                                '%.3g (tol %g, Lambda %.3g, scale %.3g)' % (name, rhs, k, got, want, resid, bound, tol, lam, scale))
            worst = max(worst, resid / bound)
    labels = ['outcome:ok', 'zones:%d' % len(spec['zones'])]
    if worst > 0.5:
        labels.append('residual>0.5bound')
    return {'nontrivial': True, 'labels': labels}


# ---------------------------------------------------------------------------------------------- solver reuse
@st.composite
def reuse_case(draw):
    """A parameter sweep on ONE solver object: solve block A, then parse and solve block B (same variables, shifted
    constants / another block altogether); the values returned for B must satisfy B."""
    a = draw(blocks.system(n_sim=(1, 5), q_hi=70, lags=(0, 2), exos=(0, 1), consts=(0, 1), aliases=(0, 1), leaves=(0, 2),
                           horizon=(1, 4), ic_prob=10, nonlinear=draw(st.booleans()), tols=('1e-6', '1e-8')))
    mode = draw(st.sampled_from(['sweep', 'sweep', 'other', 'two-solvers']))
    if mode == 'two-solvers':
        # two solver objects alive at the same time, each registering its OWN function under the same name; the one
        # set up first is solved last
        a = draw(blocks.system(n_sim=(1, 4), q_hi=70, lags=(0, 2), exos=(0, 1), consts=(0, 1), leaves=(0, 1),
                               horizon=(1, 4), nonlinear=True, tols=('1e-6', '1e-8')))
        b = draw(blocks.system(n_sim=(1, 3), q_hi=70, lags=(0, 1), exos=(0, 1), consts=(0, 1), horizon=(1, 3),
                               nonlinear=True, tols=('1e-6',)))
        a['fscale'], b['fscale'] = draw(st.sampled_from([(50, -30), (25, 50), (-40, 10), (50, 5)]))
    elif mode == 'sweep':
        import copy as _copy
        b = _copy.deepcopy(a)
        for e in b['eqs']:
            if e[2] in ('sim', 'leaf') and draw(st.sampled_from([True, True, False])):
                e[1] = e[1] + ' + ' + draw(st.sampled_from(['1.50', '0.25', '10.0']))
    else:
        b = draw(blocks.system(n_sim=(1, 5), q_hi=70, lags=(0, 2), exos=(0, 1), consts=(0, 1), aliases=(0, 1), leaves=(0, 2),
                               horizon=(1, 4), ic_prob=10, nonlinear=False, tols=('1e-6', '1e-8')))
    return {'a': a, 'b': b, 'mode': mode, 'reduction': draw(st.booleans())}


def run_two_solvers(spec):
    from sfc_models.equation_solver import EquationSolver
    solvers = {}
    for which in ('a', 'b'):
        es = EquationSolver(run_equation_reduction=spec['reduction'])
        for fn, f in blocks.user_funcs(spec[which]).items():
            es.AddFunction(fn, f)
        es.ParseString(blocks.render(spec[which]))
        solvers[which] = es
    outcomes = []
    for which in ('b', 'a'):
        try:
            solvers[which].SolveEquation()
            outcomes.append('ok')
        except Exception as ex:
            outcomes.append(type(ex).__name__)
            if not isinstance(ex, (ValueError, ArithmeticError)):
                raise Violation('C02/reuse-unexpected-exception', 'block %s (two solvers alive) raised %s: %s' %
                                (which, type(ex).__name__, ex))
    uses = any('f_half' in e[1] for e in spec['a']['eqs'])
    if outcomes[1] == 'ok':
        a = dict(spec['a'])
        a['tol_param'] = None
        check_returned(a, solvers['a'], spec['reduction'], bucket_prefix='C02/two-solvers')
    return {'nontrivial': outcomes == ['ok', 'ok'] and uses,
            'labels': ['mode:two-solvers', 'outcomes:' + '/'.join(outcomes)] + (['own-function-used'] if uses else [])}


def run_reuse(spec):
    from sfc_models.equation_solver import EquationSolver
    if spec['mode'] == 'two-solvers':
        return run_two_solvers(spec)
    es = EquationSolver(run_equation_reduction=spec['reduction'])
    for fn, f in blocks.USER_FUNCS.items():
        es.AddFunction(fn, f)
    outcomes = []
    for which in ('a', 'b'):
        try:
            es.ParseString(blocks.render(spec[which]))
            es.SolveEquation()
            outcomes.append('ok')
        except Exception as ex:
            outcomes.append(type(ex).__name__)
            if not isinstance(ex, (ValueError, ArithmeticError)):
                raise Violation('C02/reuse-unexpected-exception', 'block %s on a reused solver raised %s: %s' %
                                (which, type(ex).__name__, ex))
    labels = ['mode:' + spec['mode'], 'outcomes:' + '/'.join(outcomes)]
    if outcomes[1] == 'ok':
        b = dict(spec['b'])
        b['tol_param'] = None
        check_returned(b, es, spec['reduction'], bucket_prefix='C02/reused-solver')
    return {'nontrivial': outcomes == ['ok', 'ok'], 'labels': labels}


FAMILIES = [
    Family('contraction', contraction_case, run, quick=1600, thorough=60000),
    Family('reused-solver', reuse_case, run_reuse, quick=800, thorough=20000),
    Family('diverging', diverging_case, run, quick=600, thorough=20000),
    Family('economies', economy_case, run_economy, quick=192, thorough=3000),
]

MANIFEST_INFO = {
    'level_text': 'Generated-input exploration: thousands of generated equation systems (certified contractions, '
                  'expansive and overflowing systems) are solved by the real solver under generated tolerances, caps and '
                  'reduction settings; every returned value is substituted back into the generator\'s own copy of the '
                  'equations with a bound derived from the stop rule.',
    'design_ref': 'DESIGN.md section 3, C02',
    'level_note': 'Trusted: Python eval as the meaning of an equation; the generator\'s Lipschitz certificates. '
                  'Exceptions are acceptable outcomes here (C11 judges them).',
    'technique': 'property-based testing (structured system generator; substitute-back residual oracle with derived bound)',
}
