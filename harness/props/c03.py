"""
C03 - equation reduction never changes any solution value.
Differential oracle: the same BlockSpec solved with run_equation_reduction=True and False.
"""
from hypothesis import strategies as st

from harness.core import Family, Violation, Reject
from harness import blocks

PROPERTY_ID = 'C03'
RULE = ('Certified-solvable BlockSpecs (sup-norm contraction factor of every row <= 0.6 incl. lag feedback, or '
        'feed-forward) with 1-4 aliases (x = y, x = +y, spaced; of simultaneous, lagged, exogenous, constant variables '
        'and of other aliases = chains), simultaneous rows rewritten to use the alias instead of its target, 0-3 leaf '
        '(decorative) variables incl. leaves of leaves, near-aliases that must NOT be merged (x = -y, x = (y)), 0-3 "context" '
        'variables using an alias inside a power / product / quotient / unary minus (where substituting text for a name '
        'changes the meaning), initial conditions on ~25% of all simultaneous/constant/alias/'
        'leaf variables, prefix-related names (x, x1, xx, x_1), shuffled line order. Both settings are solved and '
        'compared: same key set; k=0 values equal exactly; k>=1 within 40*tol*max(1,|x|)/(1-q). '
        'Non-trivial: at least one alias and at least one variable that reduction moves (alias or leaf), and at least '
        'one variable referencing an alias. Distinct: sha1 of the spec.')
RULE = RULE + (' Input shapes added after the seeded-change rounds (DESIGN.md section 8): ' + 'near-aliases (x = -y, x = (y)), context variables using an alias inside powers / products / quotients / unary minus, decorative variables that are undefined at k=0 only (log(abs(x)+k)).')
ASSUMPTIONS = [
    'pure alias cycles (x=y, y=x) are excluded: documented user error',
    'a ConvergenceError in either setting makes the pair incomparable (counted as rejected); any other exception in '
    'one setting only is a violation',
    'bound: both runs are within residual/(1-q) of the common fixed point; residual <= (1+Lambda)(1+Lambda*L)*tol*scale',
]


@st.composite
def case(draw):
    from harness import gen
    spec = draw(blocks.system(n_sim=gen.size((1, 6), (1, 10)), q_hi=60, lags=(0, 3), exos=(0, 2), consts=(0, 2), aliases=gen.size((1, 4), (1, 5)),
                              leaves=gen.size((0, 3), (0, 5)), horizon=gen.size((1, 4), (1, 8)), ic_prob=25, nonlinear=False, contexts=(0, 3),
                              tols=('1e-6', '1e-8', '1e-9'), user_t=(False, False, True)))
    return spec


def compare(spec, bucket='C03'):
    steady = bool(spec.get('steady'))
    o1, es1, ex1 = blocks.solve(spec, reduction=True, steady=steady)
    o2, es2, ex2 = blocks.solve(spec, reduction=False, steady=steady)
    labels = ['on:' + o1, 'off:' + o2]
    if o1 != 'ok' or o2 != 'ok':
        from sfc_models.equation_solver import ConvergenceError, NoEquilibriumError
        if isinstance(ex1, ConvergenceError) or isinstance(ex2, ConvergenceError):
            raise Reject('no convergence (%s/%s)' % (o1, o2))
        if steady and any(isinstance(e_, NoEquilibriumError) or type(e_) is ValueError for e_ in (ex1, ex2)):
            raise Reject('steady-state search failed (%s/%s)' % (o1, o2))
        if o1 != 'ok' and o2 != 'ok':
            # refused with and without reduction: no values to compare (the error classes need not be the same class)
            raise Reject('both settings raise (%s/%s)' % (o1, o2))
        raise Violation(bucket + '/outcome-differs',
                        'reduction on -> %s (%s); reduction off -> %s (%s)' % (o1, ex1, o2, ex2))
    t1, t2 = es1.TimeSeries, es2.TimeSeries
    if set(t1.keys()) != set(t2.keys()):
        raise Violation(bucket + '/key-set', 'variables differ: only with reduction %r, only without %r' %
                        (sorted(set(t1) - set(t2)), sorted(set(t2) - set(t1))))
    tol = float(spec['tol'])
    q = spec['cert']['q']
    T = spec['maxtime']
    for name in t1:
        a, b = t1[name], t2[name]
        if len(a) != len(b):
            raise Violation(bucket + '/length', '%s: %d values with reduction, %d without' % (name, len(a), len(b)))
        if steady:
            # k=0 comes out of the steady-state search (tolerance 1e-4 relative): compare with that tolerance
            sc0 = max([1.0] + [abs(t1[n][0]) for n in t1] + [abs(t2[n][0]) for n in t2])
            if not abs(a[0] - b[0]) <= 20.0 * 1e-4 * sc0 / (1.0 - q):
                raise Violation(bucket + '/k0-steady', '%s at k=0 after the steady-state search: %r with reduction, %r without' %
                                (name, a[0], b[0]))
        elif a[0] != b[0]:
            raise Violation(bucket + '/k0', '%s at k=0: %r with reduction, %r without' % (name, a[0], b[0]))
    for k in range(1, T + 1):
        scale = max([1.0] + [abs(t1[n][k]) for n in t1] + [abs(t2[n][k]) for n in t2])
        bound = 40.0 * tol * scale / (1.0 - q)
        if steady:
            bound += 20.0 * 1e-4 * scale / (1.0 - q)
        for name in t1:
            if not abs(t1[name][k] - t2[name][k]) <= bound:
                raise Violation(bucket + '/value', '%s at k=%d: %r with reduction, %r without (bound %.3g)' %
                                (name, k, t1[name][k], t2[name][k], bound))
    moved = [v for v, _ in es1.Parser.Decoration]
    return labels, moved


def run(spec):
    labels, moved = compare(spec)
    alias_names = [e[0] for e in spec['eqs'] if e[2] == 'alias']
    from harness import expr
    refs_alias = any(set(expr.names(e[1])) & set(alias_names) for e in spec['eqs'] if e[0] not in alias_names)
    moved_real = [m for m in moved if m != 't']
    if spec['ics']:
        labels.append('has-ic')
    if any(n in alias_names for n, _ in spec['ics']):
        labels.append('ic-on-alias')
    if refs_alias:
        labels.append('alias-referenced')
    labels.append('feedforward' if spec['cert']['feedforward'] else 'cyclic')
    return {'nontrivial': bool(alias_names) and bool(moved_real) and refs_alias, 'labels': labels}


@st.composite
def steady_case(draw):
    spec = draw(blocks.system(n_sim=(1, 5), q_hi=50, lags=(1, 3), exos=(0, 2), consts=(0, 2), aliases=(1, 3),
                              leaves=(0, 3), horizon=(1, 3), ic_prob=0, nonlinear=False, tols=('1e-8',), time_terms=False))
    spec['steady'] = True
    return spec


FAMILIES = [
    Family('on-vs-off', case, run, quick=6000, thorough=200000),
    Family('steady-start', steady_case, run, quick=600, thorough=20000),
]

MANIFEST_INFO = {
    'level_text': 'Differential exploration: every generated system is solved with reduction on and off and all series are '
                  'compared variable by variable (exactly at k=0, within a derived bound afterwards).',
    'design_ref': 'DESIGN.md section 3, C03',
    'level_note': 'Trusted: the unreduced solve as reference; generator contraction certificates. Non-converging pairs are '
                  'counted as rejected.',
    'technique': 'property-based differential testing (reduction on vs off on generated alias/decorative systems)',
}
