"""
C04 - markets clear and supply is fully allocated among suppliers.
Oracle: exact reference solution + independent enumeration of the participants (from the EconSpec and from the public
object graph) + coefficients of the booked flows.
"""
from fractions import Fraction

from hypothesis import strategies as st

from harness.core import Family, Violation, Reject
from harness import econ, expr
from harness.props import c01

PROPERTY_ID = 'C04'
RULE = ('EconSpecs as in C01, biased to imports (several suppliers with allocation rules MU*INC), second households sharing '
        'the labour market, federated zones (demanders in another country of the zone), cross-currency suppliers, money and '
        'deposit markets with default and weighted demands. For every goods, labour, money and deposit market and every '
        'period k>=1 of the exact solution: total demand == sum over the independently enumerated demanders; supply == '
        'demand; per-supplier amounts add up to supply; each supplier\'s own variable == its assignment (x cross rate) and is '
        'booked with coefficient +1 (cross rate) in its F equation, each demander\'s demand with -1; issuer supply == market '
        'demand; asset demands of a weighting sector add up to its F; default money demand == F. Non-trivial: a market with '
        '>= 2 suppliers, or a demander outside the market\'s country, or a cross-currency supplier, with non-zero traded '
        'amount. Distinct: sha1 of the spec.')
RULE = RULE + (' Input shapes added after the seeded-change rounds (DESIGN.md section 8): ' + 'nested sector codes (B / CB), financial markets declared in another country than their issuer, numeric supplier rules incl. a zero quota, foreign residual suppliers, construction probes.')
ASSUMPTIONS = [
    'canonical declaration order (C08 varies the order)',
    'expected participants come from the EconSpec (who was given a demand/supply) and must coincide with the sectors that '
    'hold the corresponding variable in the built model',
]


@st.composite
def case(draw):
    from harness import gen
    spec = draw(econ.economy(zones=(1, 3), horizon=gen.size((2, 3), (2, 6))))
    # bias: add an import link when there is none and at least two producing countries exist
    all_c = [(zi, ci) for zi, z in enumerate(spec['zones']) for ci, c in enumerate(z['countries']) if c['hh']]
    if len(all_c) >= 2 and not any(l['kind'] == 'import' for l in spec['links']) and draw(st.booleans()):
        a = draw(st.sampled_from(all_c))
        b = draw(st.sampled_from([x for x in all_c if x != a]))
        spec['links'].append({'kind': 'import', 'src': list(a), 'dst': list(b),
                              'mu': econ.dec4(draw(st.integers(100, 3000))), 'residual_explicit': draw(st.booleans())})
        if a[0] != b[0] and spec['external'] == 'none':
            spec['external'] = draw(st.sampled_from(['first', 'middle', 'last']))
    return spec


def coef_in(system, values, eq_var, var):
    known = dict(values)
    known.pop(var, None)
    return expr.affine_eval(system.eqs[eq_var], known).coef.get(var, Fraction(0))


def run(spec):
    built, system, sol = c01.solve_spec(spec)
    labels, feats = c01.classify(spec)
    if not sol.ok():
        raise Reject('reference solve: %r' % ([s for s in sol.status if s not in ('given', 'unique')][:1],))
    S = built.sectors
    mod = built.model
    K = spec['horizon']
    nontrivial = False

    def V(k, name):
        if name not in sol.values[k]:
            raise Violation('C04/variable-missing', 'variable %s is not defined by the final equations' % name)
        return sol.values[k][name]

    def xr(k, cur):
        if mod.ExternalSector is None:
            return Fraction(1)
        return sol.values[k][mod.ExternalSector['XR'].GetVariableName(cur)]

    for zi, zone in enumerate(spec['zones']):
        for ci, c in enumerate(zone['countries']):
            if not c['hh']:
                continue
            goods = S[(zi, ci, 'goods')]
            labour = S[(zi, ci, 'labour')]
            hhs = [S[(zi, ci, 'hh%d' % i)] for i in range(len(c['hh']))]
            # ---- expected participants from the spec
            dem_goods = [(h, 'DEM_' + goods.Code) for h in hhs]
            if c['cap'] is not None:
                dem_goods.append((S[(zi, ci, 'cap')], 'DEM_' + goods.Code))
            gov = S[(zi, 0, 'gov')]
            if zone['kind'] == 'single':
                dem_goods.append((gov, 'DEM_' + goods.Code))
            else:
                dem_goods.append((gov, 'DEM_%s_%s' % (goods.Parent.Code, goods.Code)))
            sup_goods = [S[(zi, ci, 'bus')]]
            for l in spec['links']:
                if l['kind'] == 'import' and tuple(l['src']) == (zi, ci):
                    sup_goods.append(S[(l['dst'][0], l['dst'][1], 'bus')])
            dem_lab = [(S[(zi, ci, 'bus')], 'DEM_' + labour.Code)]
            sup_lab = list(hhs)
            for market, demanders, suppliers in ((goods, dem_goods, sup_goods), (labour, dem_lab, sup_lab)):
                # object-graph enumeration must agree with the spec
                found = set()
                for s in market.CurrencyZone.GetSectors():
                    if s is market:
                        continue
                    var = 'DEM_' + market.Code if s.Parent is market.Parent else \
                        'DEM_%s_%s' % (market.Parent.Code, market.Code)
                    if var in s.EquationBlock.Equations:
                        found.add((s.FullCode, var))
                want = set((s.FullCode, v) for s, v in demanders)
                if found != want:
                    raise Violation('C04/participants', 'market %s: sectors holding a demand variable %r, declared demanders %r' %
                                    (market.FullCode, sorted(found), sorted(want)))
                mdem = market.GetVariableName('DEM_' + market.Code)
                msup = market.GetVariableName('SUP_' + market.Code)
                for k in range(1, K + 1):
                    tot = sum((V(k, s.GetVariableName(v)) for s, v in demanders), Fraction(0))
                    if V(k, mdem) != tot:
                        raise Violation('C04/demand-aggregation', 'market %s period %d: total demand %s, participants demand %s (%r)' %
                                        (market.FullCode, k, float(V(k, mdem)), float(tot),
                                         [(s.FullCode, float(V(k, s.GetVariableName(v)))) for s, v in demanders]))
                    if V(k, msup) != V(k, mdem):
                        raise Violation('C04/not-cleared', 'market %s period %d: supply %s != demand %s' %
                                        (market.FullCode, k, float(V(k, msup)), float(V(k, mdem))))
                    alloc = Fraction(0)
                    for sup in suppliers:
                        try:
                            assigned_name = market.GetVariableName('SUP_' + sup.FullCode)
                        except KeyError:
                            raise Violation('C04/supplier-assignment-missing', 'market %s assigns nothing to its declared supplier '
                                                                               '%s (no variable SUP_%s)' %
                                            (market.FullCode, sup.FullCode, sup.FullCode))
                        a = V(k, assigned_name)
                        alloc += a
                        own_local = 'SUP_' + market.Code if sup.Parent is market.Parent else \
                            'SUP_%s_%s' % (market.Parent.Code, market.Code)
                        try:
                            own = sup.GetVariableName(own_local)
                        except KeyError:
                            raise Violation('C04/supplier-assignment-missing', 'supplier %s of market %s has no supply variable %s' %
                                            (sup.FullCode, market.FullCode, own_local))
                        cross = xr(k, market.CurrencyZone.Currency) / xr(k, sup.CurrencyZone.Currency)
                        if V(k, own) != a * cross:
                            raise Violation('C04/supplier-amount', 'market %s period %d: %s = %s but the market assigns %s (x rate %s)' %
                                            (market.FullCode, k, own, float(V(k, own)), float(a), float(cross)))
                        fvar = sup.GetVariableName('F')
                        if sup.CurrencyZone is market.CurrencyZone:
                            cf = coef_in(system, sol.values[k], fvar, own)
                            if cf != 1:
                                raise Violation('C04/supplier-flow', '%s enters %s with coefficient %s' % (own, fvar, float(cf)))
                        else:
                            cf = coef_in(system, sol.values[k], fvar, assigned_name)
                            if cf != cross:
                                raise Violation('C04/supplier-flow', '%s enters %s with coefficient %s, cross rate %s' %
                                                (assigned_name, fvar, float(cf), float(cross)))
                            if a != 0:
                                nontrivial = True
                    if alloc != V(k, msup):
                        raise Violation('C04/allocation', 'market %s period %d: suppliers receive %s of supply %s' %
                                        (market.FullCode, k, float(alloc), float(V(k, msup))))
                    for s, v in demanders:
                        dv = s.GetVariableName(v)
                        cf = coef_in(system, sol.values[k], s.GetVariableName('F'), dv)
                        if cf != -1:
                            raise Violation('C04/demander-flow', '%s enters %s with coefficient %s' %
                                            (dv, s.GetVariableName('F'), float(cf)))
                        if s.Parent is not market.Parent and V(k, dv) != 0:
                            nontrivial = True
                    if len(suppliers) >= 2 and V(k, msup) != 0:
                        nontrivial = True
        # ---- asset markets of the zone
        c0 = zone['countries'][0]
        g = c0['gov']
        zone_sectors = mod.CurrencyZoneList[[cz.Currency for cz in mod.CurrencyZoneList].index(zone['currency'])].GetSectors()
        from sfc_models.sector import Market as _Market
        if c0['money'] is not None:
            mm = S[(zi, 0, 'money')]
            issuer = S[(zi, 0, 'cb')] if g['kind'] in ('treasury_cb', 'gold_cb') else S[(zi, 0, 'gov')]
            holders = [s for s in zone_sectors if s.HasF and s is not issuer]
            if ('SUP_' + mm.Code) not in issuer.EquationBlock.Equations:
                raise Violation('C04/issuer-supply-missing', 'issuer %s of %s has no supply variable SUP_%s' %
                                (issuer.FullCode, mm.FullCode, mm.Code))
            for k in range(1, K + 1):
                tot = Fraction(0)
                for s in holders:
                    nmv = 'DEM_' + mm.Code
                    if nmv not in s.EquationBlock.Equations:
                        raise Violation('C04/money-holder-missing', 'sector %s holds no %s' % (s.FullCode, nmv))
                    tot += V(k, s.GetVariableName(nmv))
                if V(k, mm.GetVariableName('DEM_' + mm.Code)) != tot:
                    raise Violation('C04/money-demand', 'money market %s period %d: total %s, holders %s' %
                                    (mm.FullCode, k, float(V(k, mm.GetVariableName('DEM_' + mm.Code))), float(tot)))
                if V(k, issuer.GetVariableName('SUP_' + mm.Code)) != tot or V(k, mm.GetVariableName('SUP_' + mm.Code)) != tot:
                    raise Violation('C04/money-supply', 'money market %s period %d: issuer supply differs from demand' % (mm.FullCode, k))
        for asset_role in ('deposit', 'bonds'):
            if c0.get(asset_role) is None:
                continue
            dm = S[(zi, 0, asset_role)]
            issuer = S[(zi, 0, 'gov')]
            nmv = 'DEM_' + dm.Code
            holders = [s for s in zone_sectors if not isinstance(s, _Market) and s is not issuer and nmv in s.EquationBlock.Equations]
            if ('SUP_' + dm.Code) not in issuer.EquationBlock.Equations:
                raise Violation('C04/issuer-supply-missing', 'issuer %s of %s has no supply variable SUP_%s' %
                                (issuer.FullCode, dm.FullCode, dm.Code))
            for k in range(1, K + 1):
                tot = sum((V(k, s.GetVariableName(nmv)) for s in holders), Fraction(0))
                if V(k, dm.GetVariableName(nmv)) != tot:
                    raise Violation('C04/deposit-demand', 'deposit market %s period %d: total %s, holders %s' %
                                    (dm.FullCode, k, float(V(k, dm.GetVariableName(nmv))), float(tot)))
                if V(k, issuer.GetVariableName('SUP_' + dm.Code)) != tot or V(k, dm.GetVariableName('SUP_' + dm.Code)) != tot:
                    raise Violation('C04/deposit-supply', 'deposit market %s period %d: issuer supply differs from demand' % (dm.FullCode, k))
        # ---- portfolio allocation
        for ci, c in enumerate(zone['countries']):
            for hi, h in enumerate(c['hh']):
                hh = S[(zi, ci, 'hh%d' % hi)]
                dep_code = S[(zi, 0, 'deposit')].Code if c0['deposit'] is not None else None
                mon_code = S[(zi, 0, 'money')].Code if c0['money'] is not None else 'MON'
                for k in range(1, K + 1):
                    if h['weights'] is not None and dep_code is not None:
                        tot = V(k, hh.GetVariableName('DEM_' + dep_code)) + V(k, hh.GetVariableName('DEM_' + mon_code))
                        if c0.get('bonds') is not None:
                            tot += V(k, hh.GetVariableName('DEM_' + S[(zi, 0, 'bonds')].Code))
                        if tot != V(k, hh.GetVariableName('F')):
                            raise Violation('C04/portfolio', '%s period %d: asset demands %s != F %s' %
                                            (hh.FullCode, k, float(tot), float(V(k, hh.GetVariableName('F')))))
                    elif c0['money'] is not None:
                        if V(k, hh.GetVariableName('DEM_' + mon_code)) != V(k, hh.GetVariableName('F')):
                            raise Violation('C04/default-money-demand', '%s period %d: DEM_%s != F' % (hh.FullCode, k, mon_code))
    return {'nontrivial': nontrivial, 'labels': labels}


FAMILIES = [Family('markets', case, run, quick=640, thorough=10000)]

MANIFEST_INFO = {
    'level_text': 'Generated-program exploration: for every market of every generated model the clearing, aggregation and '
                  'allocation identities are checked as exact rational equalities on the reference solution, with the '
                  'participants enumerated independently of the code\'s own search.',
    'design_ref': 'DESIGN.md section 3, C04',
    'level_note': 'Trusted: harness reference solver; the EconSpec as record of who was declared demander/supplier.',
    'technique': 'property-based testing over generated model programs (exact reference-solver oracle, market invariants)',
}
