"""
C05 - generated system is closed, canonical and free of placeholder names.
Generator: EconSpec + a construction history of name requests / embeddings.  Oracle: harness lexer on the final text,
object graph for the canonical names, local-vs-final evaluation under random valuations.
"""
import re

from hypothesis import strategies as st

from harness.core import Family, Violation, Reject
from harness import econ, expr, gen, refsolve
from harness.props import c01

PROPERTY_ID = 'C05'
RULE = ('EconSpecs (1-2 zones, with/without external sector, so one or many countries) plus a generated construction '
        'history: 1-6 name requests Sector.GetVariableName(var) for random existing variables, issued before full codes '
        'exist or after Model._GenerateFullSectorCodes(), each returned string embedded in a new equation of the same '
        'sector, of another sector (possibly in another country), or in a model-level equation (AddGlobalEquation); supplier '
        'allocation rules and asset-weight equations embed requested names as part of the economy itself; exogenous '
        'definitions keyed by sector object or full code string, initial conditions keyed by full code or numeric ID; 0-3 '
        'throw-away models are built first to shift the process-wide ID counter. Non-trivial: at least one name requested '
        'before full codes exist and embedded outside the requesting sector. Distinct: sha1 of the spec.')
RULE = RULE + (' Input shapes added after the seeded-change rounds (DESIGN.md section 8): ' + "names embedded in the external sector's XR / FX blocks, two placeholders in one model-level equation, the external sector created last of all after a LogInfo() dump, cross rates requested ahead of main().")
ASSUMPTIONS = [
    'local variable names are not k and do not shadow a function they call (a local variable named t IS generated)',
    'valuation check uses Python eval on both the sector-local and the emitted right-hand side with the same values',
]

PLACEHOLDER = re.compile(r'^_\d+__\w+$')
FUNCS = set(['max', 'min', 'abs', 'float', 'sum', 'pow', 'round'] + [n for n in dir(__import__('math')) if not n.startswith('_')])


@st.composite
def case(draw):
    spec = draw(econ.economy(zones=(1, 2), horizon=(2, 3), gold=False))
    roles = []
    for zi, z in enumerate(spec['zones']):
        for ci, c in enumerate(z['countries']):
            if c['gov'] is not None:
                roles.append([zi, ci, 'gov'])
            for hi in range(len(c['hh'])):
                roles.append([zi, ci, 'hh%d' % hi])
            if c['bus'] is not None:
                roles.append([zi, ci, 'bus'])
            if c['hh']:
                roles.append([zi, ci, 'goods'])
            if c['tax'] is not None:
                roles.append([zi, ci, 'tax'])
    ops = []
    for i in range(draw(st.integers(1, 6))):
        src = draw(st.sampled_from(roles))
        place = draw(st.sampled_from(['global', 'other', 'term', 'same', 'cashflow', 'global', 'other', 'term', 'ext']))
        dst = draw(st.sampled_from(roles)) if place in ('other', 'term', 'cashflow') else src
        ops.append({'src': src, 'var_pick': draw(st.integers(0, 30)), 'place': place, 'dst': dst,
                    # (with the external sector created last of all, the country count changes after the hooks: names
                    # requested after an explicit code generation would legitimately be stale, so only 'pre' there)
                    'when': draw(st.sampled_from(['pre', 'pre', 'post-codes'])) if spec['external'] != 'end' else 'pre',
                    'form': draw(st.sampled_from(['2*%s', '%s + 1.0', '0.5*(%s)', '-%s', 'max(%s, 0.0)'])),
                    'var2_pick': draw(st.integers(0, 30)),
                    'terms': draw(st.lists(st.sampled_from(['%(a)s', '-%(a)s', '%(a)s*%(b)s', '%(a)s/%(b)s', '2*%(a)s',
                                                            '+%(b)s', '(-%(a)s)', '%(b)s*%(a)s']), min_size=1, max_size=3))})
    keyed = []
    for i in range(draw(st.integers(0, 3))):
        r = draw(st.sampled_from(roles))
        keyed.append({'kind': draw(st.sampled_from(['ic-id', 'ic-fullcode', 'exo-object', 'exo-fullcode'])), 'sector': r,
                      'value': econ.dec2(draw(st.integers(-5000, 5000)))})
    local_t = draw(st.sampled_from(roles)) if draw(st.sampled_from([True, False, False])) else None
    shared = None
    if draw(st.sampled_from([True, False, False])):
        shared = [draw(st.sampled_from(roles)), draw(st.sampled_from(roles)),
                  draw(st.sampled_from(['0.5*LAG_F + 1.0', 'F - LAG_F', '2*INC', 'LAG_F']))]
    return {'spec': spec, 'ops': ops, 'keyed': keyed, 'throwaway': draw(st.sampled_from([0, 1, 3, 0])), 'local_t': local_t, 'shared': shared}


def run(case_):
    spec = case_['spec']
    from sfc_models.models import Model, Country
    from sfc_models.sector import Sector
    for i in range(case_['throwaway']):
        m0 = Model()
        c0 = Country(m0, 'T%d' % i)
        Sector(c0, 'A')
        Sector(c0, 'B').GetVariableName('F')
    term_requests = []
    shared_done = []
    requests = []     # (emb variable full owner role, emb local name or global name, requested (role, local var))
    state = {'codes': False}
    n_countries_final = sum(len(z['countries']) for z in spec['zones']) + (1 if spec['external'] != 'none' else 0)

    def full_code_of(built, role):
        sec = built.sectors[tuple(role)]
        cc = built.countries[(role[0], role[1])].Code
        return (cc + '_' + sec.Code) if n_countries_final > 1 else sec.Code

    def hooks(built):
        mod = built.model
        S = built.sectors
        # "pre" requests first, then full codes, then "post-codes" requests
        for phase in ('pre', 'post-codes'):
            if phase == 'post-codes' and any(o['when'] == 'post-codes' for o in case_['ops']):
                mod._GenerateFullSectorCodes()
                state['codes'] = True
            for i, o in enumerate(case_['ops']):
                if o['when'] != phase:
                    continue
                src = S[tuple(o['src'])]
                vars_ = src.EquationBlock.GetEquationList()
                var = vars_[o['var_pick'] % len(vars_)]
                name = src.GetVariableName(var)
                text = o['form'] % name
                if o['place'] == 'ext' and mod.ExternalSector is not None:
                    # a user-written rule inside the external sector's own blocks (a managed exchange rate, say)
                    blk = ['XR', 'FX', 'XR'][i % 3]
                    mod.ExternalSector[blk].AddVariable('EMB%d' % i, 'embedded name in an external-sector block', text)
                elif o['place'] in ('global', 'ext'):
                    mod.AddGlobalEquation('GLOB%d' % i, 'embedded name', text)
                    requests.append((None, 'GLOB%d' % i, tuple(o['src']), var, phase))
                elif o['place'] in ('term', 'cashflow'):
                    # equations built term by term (as the framework's own F, INC, market-demand equations are)
                    var2 = vars_[o['var2_pick'] % len(vars_)]
                    name2 = src.GetVariableName(var2)
                    dst = S[tuple(o['dst'])]
                    if o['place'] == 'term':
                        dst.AddVariable('EMB%d' % i, 'embedded name, term form', '')
                        for t in o['terms']:
                            dst.AddTermToEquation('EMB%d' % i, t % {'a': name, 'b': name2})
                        term_requests.append((tuple(o['dst']), 'EMB%d' % i, tuple(o['src']), var, var2, list(o['terms']), phase))
                    else:
                        if not dst.HasF:
                            continue
                        dst.AddCashFlow(o['terms'][0] % {'a': name, 'b': name2}, is_income=False)
                        term_requests.append((tuple(o['dst']), None, tuple(o['src']), var, var2, [], phase))
                else:
                    dst = S[tuple(o['dst'])]
                    dst.AddVariable('EMB%d' % i, 'embedded name', text)
                    requests.append((tuple(o['dst']), 'EMB%d' % i, tuple(o['src']), var, phase))
        # a sector-local variable may be called t (a rate, say): it is an ordinary local name, not the time axis
        if case_.get('local_t') is not None:
            sec = S[tuple(case_['local_t'])]
            sec.AddVariable('t', 'a local variable that happens to be called t', '0.25')
            sec.AddVariable('USES_t', 'uses the local t', '2.0*t + 1.0')
        # one Equation object (written with local names) registered by reference in two sectors
        if case_.get('shared') is not None:
            from sfc_models.equation import Equation
            ra, rb, text = case_['shared']
            if tuple(ra) != tuple(rb) and S[tuple(ra)].HasF and S[tuple(rb)].HasF:
                eq = Equation('SHARED', 'one equation object, two sectors', text)
                S[tuple(ra)].AddVariableFromEquation(eq)
                S[tuple(rb)].AddVariableFromEquation(eq)
                shared_done.append((tuple(ra), tuple(rb), text))
        for j, kq in enumerate(case_['keyed']):
            sec = S[tuple(kq['sector'])]
            if kq['kind'].startswith('ic'):
                sec.AddVariable('KIC%d' % j, 'keyed ic', '1.0')
                key = sec.ID if kq['kind'] == 'ic-id' else full_code_of(built, kq['sector'])
                mod.AddInitialCondition(key, 'KIC%d' % j, float(kq['value']))
            else:
                sec.AddVariable('KEX%d' % j, 'keyed exogenous', '0.0')
                key = sec if kq['kind'] == 'exo-object' else full_code_of(built, kq['sector'])
                mod.AddExogenous(key, 'KEX%d' % j, '[%s]*%d' % (kq['value'], spec['horizon'] + 2))

    built = econ.build(spec, hooks=hooks)
    labels, feats = c01.classify(spec)
    if built.error is not None:
        msg = '%s: %s' % (type(built.error).__name__, str(built.error)[:300])
        if built.stage == 'construction':
            raise Reject('construction refused: ' + type(built.error).__name__)
        raise Violation('C05/main-fails', 'main() fails on a well-formed model with embedded names: ' + msg)
    text = built.text
    mod = built.model
    try:
        system = refsolve.parse_final(text)
    except refsolve.ParseProblem as ex:
        raise Violation('C05/final-text-unreadable', str(ex))
    # (1) unique left-hand sides
    if system.duplicates:
        raise Violation('C05/duplicate-definition', 'variables defined more than once: %r' % system.duplicates[:5])
    defined = set(system.eqs) | set(system.lags) | set(system.exo)
    # (3) no placeholder anywhere (left- or right-hand sides, initial conditions)
    for lhs in list(defined) + list(system.ics):
        if PLACEHOLDER.match(lhs):
            raise Violation('C05/placeholder-survives', 'placeholder %s is defined in the final text' % lhs)
    all_rhs = list(system.eqs.items()) + [(k, v) for k, v in system.lags.items()]
    for lhs, rhs in all_rhs:
        for tok in expr.names(rhs):
            if PLACEHOLDER.match(tok):
                raise Violation('C05/placeholder-survives', 'placeholder %s survives in the equation of %s: %s' % (tok, lhs, rhs))
    # (4) closed
    for lhs, rhs in system.eqs.items():
        for tok in expr.names(rhs):
            if tok not in defined and tok not in ('k', 't') and tok not in FUNCS:
                raise Violation('C05/dangling-name', 'equation %s = %s uses the undefined name %s' % (lhs, rhs, tok))
    for lhs, src in system.lags.items():
        if src not in defined:
            raise Violation('C05/dangling-name', 'lag %s refers to undefined %s' % (lhs, src))
    # (2) canonical names
    multi = len(mod.CountryList) > 1
    expected = {}
    for cntry in mod.CountryList:
        for sec in cntry.SectorList:
            fc = (cntry.Code + '_' + sec.Code) if multi else sec.Code
            if sec.FullCode != fc:
                raise Violation('C05/full-code', 'sector %s in %s has full code %r, expected %r' % (sec.Code, cntry.Code, sec.FullCode, fc))
            for var in sec.EquationBlock.GetEquationList():
                expected[fc + '__' + var] = (sec, var)
    for name in defined:
        if '__' in name and name not in expected:
            raise Violation('C05/non-canonical-name', 'final text defines %s, which is not <full code>__<local> of any sector' % name)
    for name in expected:
        if name not in defined:
            raise Violation('C05/variable-lost', 'sector variable %s is not defined in the final text' % name)
    for name in system.ics:
        if name not in defined:
            raise Violation('C05/ic-not-canonical', 'initial condition for %s does not name a defined variable' % name)
    # (6) embedded requests resolve to the canonical name
    for owner, emb, src_role, var, phase in requests:
        src = built.sectors[src_role]
        want = src.FullCode + '__' + var
        lhs = emb if owner is None else built.sectors[owner].FullCode + '__' + emb
        if lhs not in system.eqs:
            raise Violation('C05/embedded-equation-lost', 'equation %s is missing from the final text' % lhs)
        toks = expr.names(system.eqs[lhs])
        if want not in toks:
            bucket = 'C05/placeholder-survives' if any(PLACEHOLDER.match(t) for t in toks) else 'C05/embedded-name-wrong'
            raise Violation(bucket, 'name requested for %s (%s) and embedded in %s appears as %r' %
                            (want, phase, lhs, system.eqs[lhs]))
    # (5) meaning of every emitted sector equation == its local form
    vals = {}
    for i, name in enumerate(sorted(defined | {'k', 't'})):
        vals[name] = 1.0 + (i * 37 % 101) / 7.0
    for full, (sec, var) in expected.items():
        local_rhs = sec.EquationBlock[var].RHS()
        if full in system.lags:
            src = system.lags[full]
            m = re.match(r'^\s*([A-Za-z_]\w*)\s*\(', local_rhs)
            lname = m.group(1) if m else None
            want = lname if (lname is not None and '__' in lname) else (sec.FullCode + '__' + str(lname))
            if src != want:
                raise Violation('C05/meaning-changed', 'lag %s: local form %r, emitted source %s' % (full, local_rhs, src))
            continue
        if full in system.exo:
            continue
        if full not in system.eqs:
            continue
        env_final = dict(vals)
        env_local = dict(vals)
        for lv in sec.EquationBlock.GetEquationList():
            env_local[lv] = vals[sec.FullCode + '__' + lv]
        try:
            a = expr.float_eval(local_rhs, env_local)
            b = expr.float_eval(system.eqs[full], env_final)
        except Exception as ex:
            raise Violation('C05/equation-unevaluable', '%s: local %r / emitted %r: %s' % (full, local_rhs, system.eqs[full], ex))
        if a != b:
            raise Violation('C05/meaning-changed', '%s: local form %r evaluates to %r, emitted %r to %r' %
                            (full, local_rhs, a, system.eqs[full], b))
    # the shared Equation object must mean, in each sector, what its local text says with that sector's names
    for ra, rb, text in shared_done:
        for role in (ra, rb):
            sec = built.sectors[role]
            lhs = sec.FullCode + '__SHARED'
            if lhs not in system.eqs:
                raise Violation('C05/embedded-equation-lost', 'equation %s is missing from the final text' % lhs)
            env_local = dict(vals)
            for lv in sec.EquationBlock.GetEquationList():
                env_local[lv] = vals[sec.FullCode + '__' + lv]
            want = expr.float_eval(text, env_local)
            got = expr.float_eval(system.eqs[lhs], vals)
            if want != got:
                raise Violation('C05/meaning-changed', 'Equation object %r shared by %s and %s: emitted %s = %r (value %r, the local '
                                'text gives %r)' % (text, built.sectors[ra].FullCode, built.sectors[rb].FullCode, lhs,
                                                    system.eqs[lhs], got, want))
    # term-built equations: value of the emitted equation == signed sum of the terms written with canonical names
    for owner, emb, src_role, var, var2, terms, phase in term_requests:
        if emb is None:
            continue
        src = built.sectors[src_role]
        lhs = built.sectors[owner].FullCode + '__' + emb
        if lhs not in system.eqs:
            raise Violation('C05/embedded-equation-lost', 'equation %s is missing from the final text' % lhs)
        a, b = src.FullCode + '__' + var, src.FullCode + '__' + var2
        want_txt = ' + '.join('(' + t % {'a': a, 'b': b} + ')' for t in terms)
        try:
            want = expr.float_eval(want_txt, vals)
            got = expr.float_eval(system.eqs[lhs], vals)
        except Exception as ex:
            raise Violation('C05/equation-unevaluable', '%s = %r: %s' % (lhs, system.eqs[lhs], ex))
        if abs(want - got) > 1e-9 * max(1.0, abs(want)):
            raise Violation('C05/embedded-name-wrong', 'terms %r with names requested (%s) for %s, %s give %s = %r (value %r, expected %r)' %
                            (terms, phase, a, b, lhs, system.eqs[lhs], got, want))
    nt = any(ph == 'pre' and (owner is None or owner != src_role) for owner, emb, src_role, var, ph in requests) or \
        any(t[-1] == 'pre' and t[0] != t[2] for t in term_requests)
    if term_requests:
        labels.append('embedded-in-term-built-equation')
    if any(owner is None for owner, *_ in requests):
        labels.append('embedded-in-global')
    if any(ph == 'post-codes' for *_, ph in requests):
        labels.append('requested-after-codes')
    if case_['keyed']:
        labels.append('keyed-ic/exo')
    return {'nontrivial': nt, 'labels': labels}


FAMILIES = [Family('embedded-names', case, run, quick=640, thorough=10000)]

MANIFEST_INFO = {
    'level_text': 'Generated-program exploration over construction histories (when names are requested, where they are '
                  'embedded): closedness, uniqueness, canonical naming and absence of placeholders are checked on the final '
                  'text with an independent lexer; every emitted equation is compared with its sector-local form by evaluation.',
    'design_ref': 'DESIGN.md section 3, C05',
    'level_note': 'Trusted: harness lexer/evaluator; the public object graph (Country.SectorList, Sector.EquationBlock) as '
                  'source of the canonical names.',
    'technique': 'property-based testing over generated construction histories (closedness/canonicity invariants, evaluation twin)',
}
