"""
C06 - sector ledgers reflect exactly the cash flows recorded on them.
Code under test: Sector.AddCashFlow, Model.AddCashFlowIncomeExclusion, Sector.AddVariable, Equation.AddTerm.
Oracle: a reference ledger {term text -> coefficient} for F and INC kept by the harness; after every
        operation the rendered F / INC right-hand sides are evaluated exactly under several valuations and
        compared with the ledger; flow-variable definitions are compared with a reference dictionary.
"""
from fractions import Fraction

from hypothesis import strategies as st

from harness.core import Family, Violation, Reject
from harness import expr

PROPERTY_ID = 'C06'
RULE = ('Operation lists (3-25 ops) on one Sector with a sibling sector in the same country: flow(term, is_income, '
        'defining expression or none), exclusion(this sector | sibling | same-coded sector of another country, flow name), define(variable, rhs). Terms: name, '
        'a*b, a/b, n*x, qualified names of variables of another sector whose local part equals one of the flow '
        'names (O__W next to W), in the spellings t,+t,-t,(t),(+t),(-t),-(-t),-(t) with optional spaces; few names so that repeats '
        'and cancellations are frequent. The invariant is checked after every operation. Non-trivial: the sequence '
        'contains a repeated flow, a cancelling pair, an exclusion that hits a later income flow, and a definition '
        'attempt on an existing variable (at least three of these four). Distinct: sha1 of the op list.')
RULE = RULE + (' Input shapes added after the seeded-change rounds (DESIGN.md section 8): ' + 'qualified flow names (O__W), a same-coded twin sector in another country as exclusion target, product flows that are anagrams of each other (p1*q2, p2*q1), definitions that merely start with 0.0.')
ASSUMPTIONS = [
    'a flow registered as income BEFORE an exclusion for it is added is treated as unspecified (its atoms are valued 0 '
    'when INC is compared), so either reading of "excluded" passes',
    'existing definitions spelled as a non-canonical zero (0, 0.) are not asserted in either direction',
    'defining expressions are only passed with single-name flows, as every caller in the package does',
]

ATOMS = ['W', 'DIV', 'T', 'G', 'p', 'q', 'p1', 'q1', 'p2', 'q2']
# qualified names of OTHER sectors' variables (what Model.RegisterCashFlow hands to the receiving sector) share their
# local part with this sector's own flows and exclusions: O__W is a different flow from W
QUALIFIED = ['O__W', 'O__DIV', 'BUS__DEM_GOOD']
# (p1*q2 and p2*q1 are different flows spelled with the same characters; q*p is the same product as p*q)
CORES = ['W', 'DIV', 'T', 'G', 'p*q', 'W/q', '2*G', 'p*W', 'DEM_GOOD', 'SUP_LAB', 'p1*q2', 'p2*q1', 'p1*q1'] + QUALIFIED
SIGNS = [('%s', 1), ('+%s', 1), ('-%s', -1), ('(%s)', 1), ('(+%s)', 1), ('(-%s)', -1), ('-(-%s)', 1), ('-(%s)', -1),
         (' - %s', -1), ('+ %s ', 1), ('+(-%s)', -1)]
EQNS = [None, None, None, '', 'p*q', 'OTHER__X', '0.0', 'W + 1', '2*G']
DEFS = ['', '0.0', '0.', '0', 'p*q', 'W-W', 'G', '0.5', '0.9*G', '00.0', '0.0 ', ' ']


@st.composite
def case(draw):
    ops = []
    from harness import gen
    n = draw(st.integers(3, gen.size(25, 70)))
    for _ in range(n):
        k = draw(st.integers(0, 9))
        if k <= 5:
            core = draw(st.sampled_from(CORES))
            if draw(st.booleans()):
                core = core.replace('*', ' * ').replace('/', ' / ')
            form, _sign = draw(st.sampled_from(SIGNS))
            eqn = draw(st.sampled_from(EQNS))
            if not core.replace('_', '').isalnum() or '__' in core:
                eqn = None      # (a qualified name cannot be DEFINED on the receiving sector: the framework passes none)
            ops.append(['flow', form % core, draw(st.booleans()), eqn])
        elif k <= 7:
            # 'twin' = a sector with the SAME code in another country of the model: not this sector
            ops.append(['excl', draw(st.sampled_from(['self', 'self', 'other', 'twin'])), draw(st.sampled_from(CORES))])
        elif k == 8:
            if draw(st.booleans()):
                ops.append(['define', draw(st.sampled_from(['W', 'DIV', 'T', 'G', 'DEM_GOOD'])), draw(st.sampled_from(DEFS))])
            else:
                # a variable created as an empty placeholder and built up term by term (the SUP_xxx pattern)
                ops.append(['build', draw(st.sampled_from(['W', 'DIV', 'T', 'DEM_GOOD', 'SUP_LAB'])),
                            draw(st.sampled_from(['', '0.0'])),
                            draw(st.lists(st.sampled_from(['p', 'q', '-p', 'G', '2*G', 'p*q', '-G']), min_size=1, max_size=3))])
        else:
            ops.append(['flow', draw(st.sampled_from(['', '  '])), True, None])
    names = ATOMS + ['DEM_GOOD', 'SUP_LAB', 'LAG_F', 'OTHER__X'] + QUALIFIED
    vals = [{nm: '%d/%d' % (draw(st.integers(1, 30)) * draw(st.sampled_from([1, -1])), draw(st.integers(1, 7)))
             for nm in names} for _ in range(3)]
    return {'ops': ops, 'vals': vals}


def parse_term(text):
    """Independent reading of a signed term: returns (coefficient, core text without spaces)."""
    t = text.replace(' ', '')
    sign = 1
    while t and t[0] in '+-(':
        if t[0] == '-':
            sign = -sign
        t = t[1:]
    t = t.rstrip(')')
    return sign, t


def ledger_value(ledger, env):
    tot = Fraction(0)
    for core, coef in ledger.items():
        tot += coef * expr.frac_eval(core, env)
    return tot


def run(spec):
    from sfc_models.models import Model, Country
    from sfc_models.sector import Sector
    mod = Model()
    c = Country(mod, 'C')
    s = Sector(c, 'S')
    o = Sector(c, 'O')
    twin = Sector(Country(mod, 'D'), 'S')
    envs = [{k: Fraction(v) for k, v in e.items()} for e in spec['vals']]
    F = {'LAG_F': Fraction(1)}
    INC = {}
    excl_self = set()
    ambiguous = set()        # cores registered as income before an exclusion for them was added
    income_registered = set()
    defs = {}                # variable -> expected rhs text, or None when unspecified
    labels = []
    stats = {'repeat': 0, 'cancel': 0, 'excl_hit': 0, 'redefine': 0}
    seen_flow = {}
    for i, op in enumerate(spec['ops']):
        if op[0] == 'flow':
            _, term, is_income, eqn = op
            if term.strip() == '':
                s.AddCashFlow(term, eqn, None, is_income)
            else:
                sign, core = parse_term(term)
                try:
                    s.AddCashFlow(term, eqn, 'flow', is_income=is_income)
                except (ValueError, SyntaxError, NotImplementedError) as ex:
                    raise Reject('AddCashFlow refused %r: %s' % (term, type(ex).__name__))
                F[core] = F.get(core, 0) + sign
                if core in seen_flow:
                    stats['repeat'] += 1
                    if seen_flow[core] == -sign:
                        stats['cancel'] += 1
                seen_flow[core] = sign
                if is_income:
                    if core in excl_self:
                        stats['excl_hit'] += 1
                    else:
                        INC[core] = INC.get(core, 0) + sign
                        income_registered.add(core)
                if eqn is not None:
                    if core not in defs:
                        defs[core] = eqn
                    else:
                        stats['redefine'] += 1
                        cur = defs[core]
                        if cur is None:
                            pass
                        elif cur.strip() in ('', '0.0'):
                            defs[core] = eqn
                        elif cur.strip() in ('0', '0.', 'W-W'):
                            defs[core] = None
                        # any other definition must survive
        elif op[0] == 'excl':
            _, who, name = op
            mod.AddCashFlowIncomeExclusion({'self': s, 'other': o, 'twin': twin}[who], name)
            if who == 'self':
                if name in income_registered and name not in excl_self:
                    ambiguous.add(name)
                excl_self.add(name)
        elif op[0] == 'define':
            _, name, rhs = op
            s.AddVariable(name, 'defined', rhs)
            defs[name] = rhs
        elif op[0] == 'build':
            _, name, first, terms = op
            s.AddVariable(name, 'built term by term', first)
            for t in terms:
                s.AddTermToEquation(name, t)
            total = ' + '.join('(' + t + ')' for t in terms)
            # if the terms cancel identically the definition is a zero again (may be overwritten); otherwise it must survive
            # (decided under fixed generic valuations, not under the generated ones, which shrinking makes degenerate)
            generic = [{'p': Fraction(3), 'q': Fraction(5), 'G': Fraction(7), 'W': Fraction(11), 'DIV': Fraction(13),
                        'T': Fraction(17)},
                       {'p': Fraction(-19, 3), 'q': Fraction(23, 7), 'G': Fraction(29, 5), 'W': Fraction(31), 'DIV': Fraction(37),
                        'T': Fraction(41)}]
            try:
                zero = all(expr.frac_eval(total, env) == 0 for env in generic)
            except Exception:
                zero = False
            if not zero:
                defs[name] = total
            elif s.EquationBlock[name].RHS() in ('', '0.0'):
                defs[name] = ''          # cancelled down to the canonical zero: may be (re)defined later
            else:
                defs[name] = None        # zero in value but not in spelling (2*G-2.0*G): not asserted either way
        # ---- invariant after every step
        f_txt = s.EquationBlock['F'].RHS()
        inc_txt = s.EquationBlock['INC'].RHS()
        for env in envs:
            try:
                got = expr.frac_eval(f_txt, env)
            except Exception as ex:
                raise Violation('C06/F-not-expression', 'after %r: F = %r: %s' % (spec['ops'][:i + 1], f_txt, ex))
            want = ledger_value(F, env)
            if got != want:
                raise Violation('C06/F-value', 'after ops %r: F = %r has value %s, ledger %r gives %s' %
                                (spec['ops'][:i + 1], f_txt, got, {k: str(v) for k, v in F.items()}, want))
            env2 = dict(env)
            for core in ambiguous:
                for nm in expr.names(core)[:1]:
                    env2[nm] = Fraction(0)
            try:
                got = expr.frac_eval(inc_txt, env2)
            except ZeroDivisionError:
                continue
            except Exception as ex:
                raise Violation('C06/INC-not-expression', 'after %r: INC = %r: %s' % (spec['ops'][:i + 1], inc_txt, ex))
            try:
                want = ledger_value(INC, env2)
            except ZeroDivisionError:
                continue
            if got != want:
                raise Violation('C06/INC-value', 'after ops %r (exclusions for this sector: %r): INC = %r has value %s, '
                                'ledger %r gives %s' % (spec['ops'][:i + 1], sorted(excl_self), inc_txt, got,
                                                        {k: str(v) for k, v in INC.items()}, want))
        for name, want in defs.items():
            if want is None:
                continue
            if name not in s.EquationBlock:
                raise Violation('C06/definition-missing', 'after ops %r: variable %r is not defined' %
                                (spec['ops'][:i + 1], name))
            got = s.EquationBlock[name].RHS()
            if want.strip() == '':
                ok = got.strip() in ('', '0.0')
            elif got.replace(' ', '') == want.replace(' ', ''):
                ok = True
            else:
                # definitions are compared by value (a term-built definition is rendered in the code's own spelling)
                try:
                    ok = all(expr.frac_eval(got, env) == expr.frac_eval(want, env) for env in envs)
                except Exception:
                    ok = False
            if not ok:
                raise Violation('C06/definition', 'after ops %r: variable %r is defined as %r, expected %r' %
                                (spec['ops'][:i + 1], name, got, want))
    # the sibling never received anything
    if o.EquationBlock['F'].RHS() != 'LAG_F' or o.EquationBlock['INC'].RHS() != '0.0':
        raise Violation('C06/sibling-touched', 'sibling sector ledger changed: F=%r INC=%r' %
                        (o.EquationBlock['F'].RHS(), o.EquationBlock['INC'].RHS()))
    hit = sum(1 for v in stats.values() if v > 0)
    for k, v in stats.items():
        if v:
            labels.append(k)
    if ambiguous:
        labels.append('ambiguous-late-exclusion')
    return {'nontrivial': hit >= 3, 'labels': labels}


FAMILIES = [Family('ledger', case, run, quick=5000, thorough=300000)]

MANIFEST_INFO = {
    'level_text': 'Model-based exploration of call histories: generated operation lists are applied to a real Sector and '
                  'to a reference ledger; after every operation F, INC and the flow-variable definitions are compared '
                  '(exact rational evaluation under three valuations).',
    'design_ref': 'DESIGN.md section 3, C06',
    'level_note': 'Trusted: the harness term reader and evaluator. Late exclusions are treated as unspecified.',
    'technique': 'property-based testing, model-based (operation lists vs reference ledger, invariant after every step)',
}
