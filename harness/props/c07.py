"""
C07 - cross-currency flows conserve value at the prevailing exchange rates.
Oracle: exact reference solution of the emitted equations.
"""
from fractions import Fraction

from hypothesis import strategies as st

from harness.core import Family, Violation, Reject
from harness import econ, refsolve, expr, gen
from harness.props import c01

PROPERTY_ID = 'C07'
RULE = ('EconSpecs with 2-3 currency zones and at least one cross-zone link (gifts in both directions, several per pair; '
        'cross-zone suppliers that are single- or multi-output firms; at most one gold-standard government; optionally a rest-of-the-world sector inside the external sector paying or '
        'receiving a flow), exchange-rate '
        'paths per currency drawn as time-varying decimals in [0.5, 3.0] (never all 1.0); the same specs are also built '
        'WITHOUT an external sector. Oracle per period k>=1 on the exact solution: sum_c NET_c*XR_c + NET_NUMERAIRE == 0; '
        'NET_NUMERAIRE == 0 without gold purchases; coefficient of each cross flow in the receiver\'s F equation == '
        'XR_sender/XR_receiver and -1 in the sender\'s; without external sector main() raises LogicError and no period is '
        'solved. Non-trivial: some cross rate != 1 in a checked period and the flow amount is non-zero. '
        'Distinct: sha1 of the spec. Second family (interleaved-construction): one generated order of '
        'creating countries (several may share a currency, codes contain one another), the external sector, plain sectors, '
        'registered flows and direct gold purchases (ExternalSector GOLD.SetGoldPurchases), so that a country may join a '
        'currency that already has bookings; oracle: FX books balance in the numeraire and every zone is consistent once its FX '
        'position is counted; non-trivial there: a zone moves and there is a cross-currency flow or a gold purchase.')
ASSUMPTIONS = [
    'exchange rates are positive; the reference solver folds the cross-rate quotients exactly',
    'the coefficient of a flow is read from the affine form of the emitted F equation with all other names substituted',
]


@st.composite
def case(draw):
    spec = draw(econ.economy(zones=(2, 3), horizon=gen.size((2, 4), (2, 7))))
    all_c = [(zi, ci) for zi, z in enumerate(spec['zones']) for ci, c in enumerate(z['countries']) if c['hh']]
    cross = [l for l in spec['links'] if l['src'][0] != l['dst'][0]]
    if not cross:
        a = [x for x in all_c if x[0] == 0][0]
        b = [x for x in all_c if x[0] == 1][0]
        if draw(st.booleans()):
            a, b = b, a
        spec['links'].append({'kind': 'gift', 'src': list(a), 'dst': list(b),
                              'amount': draw(st.sampled_from([econ.dec2(draw(st.integers(1, 2000))), '0.05*LAG_F'])),
                              'name': 'GIFT%d' % len(spec['links']), 'inc_src': draw(st.booleans()),
                              'inc_dst': draw(st.booleans())})
    if spec['external'] == 'none':
        spec['external'] = draw(st.sampled_from(['first', 'middle', 'last']))
    K = spec['horizon']
    for z in spec['zones']:
        if z['currency'] not in spec['xr'] or all(v == '1.00' for v in spec['xr'][z['currency']]):
            spec['xr'][z['currency']] = draw(econ.path(K, 50, 300))
    spec['without_external'] = draw(gen.chance(1, 4))
    # a "rest of the world" sector living in the external sector's own (numeraire) zone, receiving or paying a flow
    if draw(gen.chance(1, 3)):
        a = draw(st.sampled_from(all_c))
        spec['row'] = {'country': list(a), 'amount': econ.dec2(draw(st.integers(1, 2000))),
                       'direction': draw(st.sampled_from(['to-row', 'to-row', 'from-row']))}
    return spec


def run(spec):
    labels, feats = c01.classify(spec)
    if spec.get('without_external'):
        s2 = dict(spec)
        s2['external'] = 'none'
        s2['xr'] = {}
        # a gold-standard government needs the external sector as well: the refusal is expected either way
        built = econ.build(s2)
        from sfc_models.utils import LogicError
        if built.error is None:
            raise Violation('C07/no-external-accepted', 'cross-currency links were accepted without an external sector')
        if not isinstance(built.error, LogicError):
            raise Violation('C07/no-external-wrong-exception', 'without external sector: %s: %s' %
                            (type(built.error).__name__, built.error))
        if any(len(s) > 1 for s in built.model.EquationSolver.TimeSeries.values()):
            raise Violation('C07/no-external-produced-numbers', 'periods were solved although the model was refused')
        return {'nontrivial': True, 'labels': labels + ['without-external']}
    row = spec.get('row')
    row_objs = {}

    def hooks(b):
        if row is None or b.model.ExternalSector is None:
            return
        from sfc_models.sector import Sector
        r = Sector(b.model.ExternalSector, 'ROW', 'Rest of the world')
        hh = b.sectors[(row['country'][0], row['country'][1], 'hh0')]
        if row['direction'] == 'to-row':
            hh.AddVariable('ROWPAY', 'payment to the rest of the world', row['amount'])
            b.model.RegisterCashFlow(hh, r, 'ROWPAY')
        else:
            r.AddVariable('ROWPAY', 'payment from the rest of the world', row['amount'])
            b.model.RegisterCashFlow(r, hh, 'ROWPAY')
        row_objs['row'] = r
        row_objs['hh'] = hh

    built, system, sol = c01.solve_spec(spec, hooks=hooks)
    if not sol.ok():
        raise Reject('reference solve: %r' % ([s for s in sol.status if s not in ('given', 'unique')][:1],))
    mod = built.model
    K = spec['horizon']
    ext = mod.ExternalSector
    fx = ext['FX']
    xr = ext['XR']
    curs = [cz.Currency for cz in mod.CurrencyZoneList if cz.Currency != 'NUMERAIRE']
    has_gold = any(c['gov'] is not None and c['gov']['kind'] in ('gold', 'gold_cb') for z in spec['zones'] for c in z['countries'])
    nontrivial = False
    for k in range(1, K + 1):
        v = sol.values[k]
        tot = v[fx.GetVariableName('NET_NUMERAIRE')]
        for cur in curs:
            tot += v[fx.GetVariableName('NET_' + cur)] * v[xr.GetVariableName(cur)]
        if tot != 0:
            raise Violation('C07/fx-value-not-conserved', 'period %d: sum of NET_c*XR_c + NET_NUMERAIRE = %s' % (k, float(tot)))
        if not has_gold and row is None and v[fx.GetVariableName('NET_NUMERAIRE')] != 0:
            raise Violation('C07/numeraire-position', 'period %d: NET_NUMERAIRE = %s with paired flows only' %
                            (k, float(v[fx.GetVariableName('NET_NUMERAIRE')])))
    # the rest-of-the-world sector: credited / debited at the sender's rate over 1 (the numeraire's own rate)
    if row is not None and 'row' in row_objs:
        labels.append('row-' + row['direction'])
        r, hh = row_objs['row'], row_objs['hh']
        cur_h = spec['zones'][row['country'][0]]['currency']
        for k in range(1, K + 1):
            v = sol.values[k]
            rate = v[xr.GetVariableName(cur_h)]
            if row['direction'] == 'to-row':
                var = hh.GetVariableName('ROWPAY')
                credited, want = r, rate
            else:
                var = r.GetVariableName('ROWPAY')
                credited, want = hh, 1 / rate
            known = dict(v)
            known.pop(var, None)
            got = expr.affine_eval(system.eqs[credited.GetVariableName('F')], known).coef.get(var, Fraction(0))
            if got != want:
                raise Violation('C07/credited-at-wrong-rate', 'period %d: %s (%s) credits %s at %s per unit, the rates give %s' %
                                (k, var, row['direction'], credited.FullCode, float(got), float(want)))
            # the numeraire zone is consistent as well: its only holder of financial assets is ROW
            dF = v[r.GetVariableName('F')] - sol.values[k - 1][r.GetVariableName('F')]
            if dF + v[fx.GetVariableName('NET_NUMERAIRE')] != 0 and not has_gold:
                raise Violation('C07/numeraire-zone-not-consistent', 'period %d: change in ROW assets %s + NET_NUMERAIRE %s != 0' %
                                (k, float(dF), float(v[fx.GetVariableName('NET_NUMERAIRE')])))
    # coefficient of each cross flow
    S = built.sectors
    for li, l in enumerate(spec['links']):
        a, b = tuple(l['src']), tuple(l['dst'])
        if a[0] == b[0]:
            continue
        cur_a = spec['zones'][a[0]]['currency']
        cur_b = spec['zones'][b[0]]['currency']
        if l['kind'] == 'gift':
            src, dst = S[(a[0], a[1], 'hh0')], S[(b[0], b[1], 'hh0')]
            var = src.GetVariableName(l['name'])
            cur_s, cur_t = cur_a, cur_b
            payer = src
        else:
            market = S[(a[0], a[1], 'goods')]
            dst = S[(b[0], b[1], 'bus')]
            var = market.GetVariableName('SUP_' + dst.FullCode)
            cur_s, cur_t = cur_a, cur_b
            payer = None
        mult = len([x for x in spec['links'] if x['kind'] == l['kind'] and x['src'] == l['src'] and x['dst'] == l['dst']
                    and x.get('name') == l.get('name')])
        # the sender pays the same variable once per registration, whatever the destination
        mult_sender = len([x for x in spec['links'] if x['kind'] == l['kind'] and x['src'] == l['src']
                           and x.get('name') == l.get('name')])
        for k in range(1, K + 1):
            known = dict(sol.values[k])
            known.pop(var, None)
            amount = sol.values[k][var]
            want = sol.values[k][xr.GetVariableName(cur_s)] / sol.values[k][xr.GetVariableName(cur_t)]
            form = expr.affine_eval(system.eqs[dst.GetVariableName('F')], known)
            got = form.coef.get(var, Fraction(0))
            if got != mult * want:
                raise Violation('C07/credited-at-wrong-rate',
                                'period %d: %s flows from %s to %s; receiver %s is credited %s per unit, rates give %s/%s = %s' %
                                (k, var, cur_s, cur_t, dst.FullCode, float(got), cur_s, cur_t, float(want)))
            if payer is not None:
                form = expr.affine_eval(system.eqs[payer.GetVariableName('F')], known)
                got = form.coef.get(var, Fraction(0))
                if got != -mult_sender:
                    raise Violation('C07/sender-debit', 'period %d: sender %s is debited %s per unit of %s' %
                                    (k, payer.FullCode, float(got), var))
            if want != 1 and amount != 0:
                nontrivial = True
    return {'nontrivial': nontrivial, 'labels': labels}


# ---------------------------------------------------------------------------------------------------
# Interleaved construction: countries, the external sector, plain sectors, cross-currency flows and direct gold purchases
# are created in ONE generated order (a country may join a currency that already has bookings; the external sector may
# appear anywhere before its first use).  Oracle: the FX intermediary's books balance in every period and every zone is
# stock-flow consistent once the FX position is counted.
CURS = ['EURO', 'EUR', 'GBP']      # (one code contains another: currencies are matched whole, never by substring)


@st.composite
def interleaved_case(draw):
    K = draw(st.integers(2, 4))
    ops = []
    countries = []       # currency per country index
    sectors = []         # country index per sector index
    have_ext = False
    n_ops = draw(st.integers(8, gen.size(16, 26)))
    flows = 0
    for i in range(n_ops):
        choices = ['country', 'sector', 'sector']
        if not have_ext:
            choices.append('ext')
        if len(sectors) >= 2:
            choices += ['flow', 'flow', 'flow', 'flow']
        if have_ext and sectors:
            choices += ['gold']
        kind = draw(st.sampled_from(choices))
        if not countries:
            kind = draw(st.sampled_from(['country', 'country', 'ext'])) if not have_ext else 'country'
        elif not sectors and kind in ('flow', 'gold'):
            kind = 'sector'
        if kind == 'ext':
            ops.append(['ext'])
            have_ext = True
        elif kind == 'country':
            if len(countries) >= 5:
                continue
            cur = draw(st.sampled_from([CURS[len(countries) % 3], CURS[len(countries) % 3]] + CURS))
            ops.append(['country', 'K%d' % len(countries), cur])
            countries.append(cur)
        elif kind == 'sector':
            if len(sectors) >= 7:
                continue
            ci = draw(st.sampled_from(list(range(len(countries) - 1, -1, -1))))
            ops.append(['sector', ci, 'S%d' % len(sectors)])
            sectors.append(ci)
        elif kind == 'flow':
            a = draw(st.integers(0, len(sectors) - 1))
            b = draw(st.sampled_from([x for x in range(len(sectors)) if x != a]))
            amount = draw(st.sampled_from([econ.dec2(draw(st.integers(1, 3000))), '0.05*LAG_F + 1.0', '0.5*k + 2.0']))
            ops.append(['flow', a, b, 'PAY%d' % flows, amount])
            flows += 1
        elif kind == 'gold':
            si = draw(st.integers(0, len(sectors) - 1))
            if any(o[0] == 'gold' and o[1] == si for o in ops):
                continue
            ops.append(['gold', si, econ.dec2(draw(st.integers(-500, 2000))), econ.dec2(draw(st.integers(0, 5000)))])
    used = sorted(set(countries))
    cross = any(o[0] == 'flow' and countries[sectors[o[1]]] != countries[sectors[o[2]]] for o in ops)
    if not have_ext:
        # somewhere before the end (a model with cross-currency flows needs it; otherwise it is simply unused)
        ops.insert(draw(st.integers(0, len(ops))), ['ext'])
    xr = {cur: draw(econ.path(K, 50, 300)) for cur in used if draw(gen.chance(4, 5))}
    return {'ops': ops, 'xr': xr, 'horizon': K, 'cross': cross}


def run_interleaved(spec):
    from sfc_models.models import Model, Country
    from sfc_models.sector import Sector
    from sfc_models.external import ExternalSector
    mod = Model()
    K = spec['horizon']
    countries, sectors = [], []
    gold_sectors = []
    late_join = False      # a country joined a currency after something had been booked for that currency
    booked = set()
    try:
        for op in spec['ops']:
            if op[0] == 'ext':
                ExternalSector(mod)
            elif op[0] == 'country':
                if op[2] in booked:
                    late_join = True
                countries.append(Country(mod, op[1], currency=op[2]))
            elif op[0] == 'sector':
                sectors.append(Sector(countries[op[1]], op[2], 'plain sector', has_F=True))
            elif op[0] == 'flow':
                src, dst = sectors[op[1]], sectors[op[2]]
                src.AddVariable(op[3], 'payment', op[4])
                mod.RegisterCashFlow(src, dst, op[3])
            elif op[0] == 'gold':
                sec = sectors[op[1]]
                sec.AddVariable('GOLDPURCHASES', 'gold bought this period', op[2])
                mod.ExternalSector['GOLD'].SetGoldPurchases(sec, 'GOLDPURCHASES', float(op[3]))
                gold_sectors.append(sec)
                booked.add(sec.CurrencyZone.Currency)
        for cur, vals in spec['xr'].items():
            mod.ExternalSector['XR'].SetExogenous(cur, '[' + ', '.join(vals) + ']')
        mod.MaxTime = K
        mod.EquationSolver.MaxTime = 0
        text = mod.main()
    except Exception as ex:
        raise Reject('construction or main() refused: %s' % type(ex).__name__)
    try:
        system = refsolve.parse_final(text)
        sol = system.solve(K)
    except refsolve.ParseProblem as ex:
        raise Violation('C07/final-text-open', 'final equations of an interleaved construction are not closed: %s' % ex)
    if not sol.ok():
        raise Reject('reference solve: %r' % ([s_ for s_ in sol.status if s_ not in ('given', 'unique')][:1],))
    ext = mod.ExternalSector
    fx, xr = ext['FX'], ext['XR']
    curs = [cz.Currency for cz in mod.CurrencyZoneList if cz.Currency != 'NUMERAIRE']
    moved = False
    first = 2 if gold_sectors else 1     # gold holdings start from an initial stock imposed at k=0
    for k in range(first, K + 1):
        v = sol.values[k]
        tot = v[fx.GetVariableName('NET_NUMERAIRE')]
        for cur in curs:
            tot += v[fx.GetVariableName('NET_' + cur)] * v[xr.GetVariableName(cur)]
        if tot != 0:
            raise Violation('C07/fx-value-not-conserved', 'interleaved construction %r, period %d: sum of NET_c*XR_c + '
                                                          'NET_NUMERAIRE = %s' % (spec['ops'], k, float(tot)))
        if not gold_sectors and v[fx.GetVariableName('NET_NUMERAIRE')] != 0:
            raise Violation('C07/numeraire-position', 'period %d: NET_NUMERAIRE = %s with paired flows only' %
                            (k, float(v[fx.GetVariableName('NET_NUMERAIRE')])))
        for cz in mod.CurrencyZoneList:
            if cz.Currency == 'NUMERAIRE':
                continue
            fn = [s_.GetVariableName('F') for s_ in cz.GetSectors() if s_.HasF]
            d = sum((v[f] - sol.values[k - 1][f] for f in fn), Fraction(0))
            net = v[fx.GetVariableName('NET_' + cz.Currency)]
            if d != 0:
                moved = True
            if d + net != 0:
                raise Violation('C07/zone-vs-fx-position', 'interleaved construction %r, period %d, currency %s: change in '
                                'financial assets %s + FX position %s != 0' % (spec['ops'], k, cz.Currency, float(d), float(net)))
    labels = ['gold:%d' % len(gold_sectors), 'cross' if spec['cross'] else 'no-cross']
    if late_join:
        labels.append('country-joins-booked-currency')
    return {'nontrivial': moved and (spec['cross'] or bool(gold_sectors)), 'labels': labels}


FAMILIES = [Family('cross-currency', case, run, quick=480, thorough=10000),
            Family('interleaved-construction', interleaved_case, run_interleaved, quick=960, thorough=20000)]

MANIFEST_INFO = {
    'level_text': 'Generated-program exploration of multi-currency models with non-unit, time-varying exchange rates; the '
                  'conservation identities and the credited coefficients are checked as exact rational equalities on the '
                  'reference solution; the refusal without an external sector is checked on the same specs.',
    'design_ref': 'DESIGN.md section 3, C07',
    'level_note': 'Trusted: harness reference solver and expression evaluator; public object API for variable names.',
    'technique': 'property-based testing over generated model programs (exact reference-solver oracle, conservation invariants)',
}
