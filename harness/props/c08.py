"""
C08 - results do not depend on the order in which sectors are declared.
Metamorphic oracle: canonical build vs dependency-respecting permuted build, both solved exactly.
"""
from hypothesis import strategies as st

from harness.core import Family, Violation, Reject
from harness import econ, refsolve
from harness.props import c01

PROPERTY_ID = 'C08'
RULE = ('EconSpecs as in C01 x a permutation of the constructor calls (drawn as a key list driving a shuffle that only '
        'respects constructor-argument dependencies: a central bank given its treasury in the constructor comes after it, a '
        'multi-output firm given its market list comes after those markets); post-declaration wiring in fixed order. Both '
        'builds are solved exactly; variable sets and every rational series must be equal; acceptance/refusal must agree. '
        'Non-trivial: the permutation puts at least one market or tax-flow object before a sector it links (the business '
        'for a labour/goods market, a household for the tax flow). Distinct: sha1 of (spec, keys).')
ASSUMPTIONS = [
    'family real-solver: k=0 values must agree to 1e-12 of the largest k=0 value (the time-zero constant propagation is an '
    'order-independent closure; only the rounding of sums depends on the order of the summands); '
    'k>=1 values within 1e-3*max(1,|x|) (solver tolerance 1e-6; summation order may change the sweep count)',
    'countries are created in the same order in both builds; only the sector declarations are permuted',
    'equality is exact (rational numbers): the two systems are required to have the same solution, not the same text',
]


@st.composite
def case(draw):
    from harness import gen
    spec = draw(econ.economy(zones=gen.size((1, 2), (1, 3)), horizon=(2, 3)))
    keys = draw(st.lists(st.integers(0, 11), min_size=6, max_size=14))
    return {'spec': spec, 'keys': keys}


def moved_before(order):
    """Does a market/tax object precede a sector it links, in the same country?"""
    pos = {k: i for i, k in enumerate(order)}
    hit = False
    for key, i in pos.items():
        zi, ci, role = key
        if role in ('labour', 'goods'):
            for other in ('bus', 'hh0', 'cap'):
                if (zi, ci, other) in pos and pos[(zi, ci, other)] > i:
                    hit = True
        if role in ('tax', 'money', 'deposit', 'bonds'):
            for k2, j in pos.items():
                if k2[0] == zi and k2[2] in ('hh0', 'hh1', 'cap', 'gov', 'cb', 'bus') and j > i:
                    hit = True
    return hit


def run(case_):
    spec = case_['spec']
    b1 = econ.build(spec, order_seed=None)
    b2 = econ.build(spec, order_seed=case_['keys'])
    labels, feats = c01.classify(spec)
    nt = moved_before(b2.decl_order)
    if (b1.error is None) != (b2.error is None):
        raise Violation('C08/outcome-differs', 'canonical order: %r; permuted order %r: %r' %
                        (b1.error, b2.decl_order, b2.error))
    if b1.error is not None:
        raise Reject('model refused in both orders: %s' % type(b1.error).__name__)
    try:
        s1 = refsolve.parse_final(b1.text)
        s2 = refsolve.parse_final(b2.text)
        sol1 = s1.solve(spec['horizon'])
        sol2 = s2.solve(spec['horizon'])
    except refsolve.ParseProblem as ex:
        raise Violation('C08/final-text-open', 'final equations of one build are not closed: %s (order %r)' %
                        (ex, b2.decl_order))
    if sol1.status != sol2.status:
        raise Violation('C08/solvability-differs', 'canonical %r, permuted %r (order %r)' %
                        (sol1.status, sol2.status, b2.decl_order))
    if not sol1.ok():
        raise Reject('reference solve: %r' % sol1.status[-1])
    v1 = set(sol1.values[1].keys())
    v2 = set(sol2.values[1].keys())
    if v1 != v2:
        raise Violation('C08/variable-set', 'only canonical: %r; only permuted: %r (order %r)' %
                        (sorted(v1 - v2)[:6], sorted(v2 - v1)[:6], b2.decl_order))
    for k in range(1, spec['horizon'] + 1):
        for v in v1:
            if sol1.values[k][v] != sol2.values[k][v]:
                raise Violation('C08/value-differs', '%s at k=%d: canonical %s, permuted %s (declaration order %r)' %
                                (v, k, float(sol1.values[k][v]), float(sol2.values[k][v]),
                                 ['%d.%d.%s' % x for x in b2.decl_order]))
    return {'nontrivial': nt, 'labels': labels + (['market/flow-before-linked-sector'] if nt else [])}


# ---------------------------------------------------------------------------------------------------
# The same comparison through the REAL solver (its k=0 constant propagation and its iteration read the equations in
# text order, i.e. in declaration order), with a chain of user-defined constants running across three sectors.
@st.composite
def real_case(draw):
    spec = draw(econ.economy(zones=(1, 1), horizon=(2, 2), gold=False, links=False))
    keys = draw(st.lists(st.integers(0, 11), min_size=6, max_size=14))
    roles = []
    c = spec['zones'][0]['countries']
    for ci, cc in enumerate(c):
        if cc['gov'] is not None:
            roles.append([0, ci, 'gov'])
        if cc['tax'] is not None:
            roles.append([0, ci, 'tax'])
        if cc['hh']:
            roles += [[0, ci, 'hh0'], [0, ci, 'bus'], [0, ci, 'goods']]
    chain = {'roles': [draw(st.sampled_from(roles)) for _ in range(3)],
             'w': econ.dec2(draw(st.integers(1, 900))), 'a': econ.dec2(draw(st.integers(1, 900))),
             'zero': draw(st.sampled_from([True, True, False]))}
    return {'spec': spec, 'keys': keys, 'chain': chain}


def run_real(case_):
    spec = case_['spec']
    ch = case_['chain']

    def hooks(built):
        S = built.sectors
        sx, sz, sw = [S[tuple(r)] for r in ch['roles']]
        sw.AddVariable('CHAIN_W', 'user constant', ch['w'])
        off = ('%s*%s' % (ch['a'], ch['w'])) if ch['zero'] else '1.0'
        sz.AddVariable('CHAIN_Z', 'user constant depending on another sector', '%s*%s - %s' % (ch['a'], sw.GetVariableName('CHAIN_W'), off))
        sx.AddVariable('CHAIN_X', 'user constant two sectors deep', '2.0 + 10*%s' % sz.GetVariableName('CHAIN_Z'))
        sx.AddVariable('LAG_CHAIN_X', 'its lag', 'CHAIN_X(k-1)')

    K = spec['horizon']
    b1 = econ.build(spec, order_seed=None, maxtime=K, hooks=hooks)
    b2 = econ.build(spec, order_seed=case_['keys'], maxtime=K, hooks=hooks)
    labels, feats = c01.classify(spec)
    names = [type(b.error).__name__ if b.error is not None else 'ok' for b in (b1, b2)]
    from sfc_models.equation_solver import ConvergenceError
    if any(isinstance(b.error, ConvergenceError) for b in (b1, b2)):
        raise Reject('no convergence (%s/%s)' % tuple(names))
    if (names[0] == 'ok') != (names[1] == 'ok'):
        raise Violation('C08/real-outcome-differs', 'canonical order: %s; permuted order %r: %s (%s)' %
                        (names[0], b2.decl_order, names[1], b2.error or b1.error))
    if names[0] != 'ok':
        raise Reject('both orders raise ' + names[0])
    t1, t2 = b1.model.EquationSolver.TimeSeries, b2.model.EquationSolver.TimeSeries
    if set(t1.keys()) != set(t2.keys()):
        raise Violation('C08/real-variable-set', 'only canonical %r, only permuted %r' %
                        (sorted(set(t1) - set(t2))[:5], sorted(set(t2) - set(t1))[:5]))
    scale0 = max([1.0] + [abs(t1[v][0]) for v in t1 if isinstance(t1[v][0], (int, float))])
    for v in t1:
        # (equal up to floating-point rounding: a market total is a sum over the sectors in declaration order, and
        # float addition is not associative - 12.3018 against 12.301799999999998 was once reported here)
        if not abs(t1[v][0] - t2[v][0]) <= 1e-12 * scale0:
            raise Violation('C08/real-k0-differs', '%s at k=0: canonical %r, permuted %r (declaration order %r)' %
                            (v, t1[v][0], t2[v][0], ['%d.%d.%s' % x for x in b2.decl_order]))
    for k in range(1, K + 1):
        scale = max([1.0] + [abs(t1[v][k]) for v in t1])
        for v in t1:
            if not abs(t1[v][k] - t2[v][k]) <= 1e-3 * scale:
                raise Violation('C08/real-value-differs', '%s at k=%d: canonical %r, permuted %r (declaration order %r)' %
                                (v, k, t1[v][k], t2[v][k], ['%d.%d.%s' % x for x in b2.decl_order]))
    distinct_sectors = len(set(tuple(r) for r in ch['roles']))
    return {'nontrivial': distinct_sectors >= 2 and moved_before(b2.decl_order),
            'labels': labels + ['chain-sectors:%d' % distinct_sectors, 'zero-link' if ch['zero'] else 'nonzero-link']}


FAMILIES = [
    Family('permuted-declarations', case, run, quick=480, thorough=8000),
    Family('real-solver', real_case, run_real, quick=256, thorough=4000),
]

MANIFEST_INFO = {
    'level_text': 'Metamorphic exploration over construction histories: each generated economy is built in the canonical and '
                  'in a generated dependency-respecting order; both equation systems are solved exactly and compared variable '
                  'by variable.',
    'design_ref': 'DESIGN.md section 3, C08',
    'level_note': 'Trusted: harness reference solver. Only sector declarations are permuted, wiring calls keep their order.',
    'technique': 'property-based metamorphic testing (permuted construction histories, exact reference-solver comparison)',
}
