"""
C09 - textbook models obey their difference equations for any parameters.
Code under test: gl_book builders SIM / SIMEX1 / PC (as shipped) + the real iterative solver; ModelSIMiterative.
Oracle: the book's recursions evaluated independently in closed form over Fractions.
"""
from fractions import Fraction

from hypothesis import strategies as st

from harness.core import Family, Violation, Reject
from harness import gen

PROPERTY_ID = 'C09'
RULE = ('Parameter vectors for the bundled builders: alpha1, alpha2 in (0.05,0.95), theta in [0,0.6] with '
        'alpha1*(1-theta) <= 0.75 (convergence region of the iterative solver), lambda0 in [0.2,0.8], lambda1 in [0,8], '
        'lambda2 in [0,0.05]; drawn on the 4-decimal grid or with 8 decimals; piecewise G_k in [1,200] and r_k in [0,0.08]; '
        'consistent initial stocks (household wealth = - government wealth, bills <= wealth); horizon 4-12. Models are built '
        'by SIM/SIMEX1/PC(code, use_book_exogenous=False).build_model() and parametrised through public attributes, '
        'SetEquationRightHandSide, SetExogenous and AddInitialCondition; solver tolerance 1e-9. The hand-coded '
        'ModelSIMiterative is driven through its attributes. Non-trivial: every parameter differs from the book '
        'calibration, the G path has >= 2 distinct values and initial wealth is non-zero. Distinct: sha1 of the spec.')
RULE = RULE + (' Input shapes added after the seeded-change rounds (DESIGN.md section 8): ' + 'AfterTax(0) optionally unstated; paths replaced through Model.AddExogenous(sector code, ...); parameters supplied as exogenous series; G paths in which a level recurs.')
ASSUMPTIONS = [
    'tolerance of the comparison: 1e-6*max(1,|v|)/(1-q) with q = alpha1*(1-theta) for the framework models (solver '
    'tolerance 1e-9, errors propagate through wealth); 0.002*(k+1)/(1-q) for the hand-coded model (its stop rule is 0.001), '
    '0.02*(k+1)/(1-q) for its RunMethod2 (whole-vector iteration, summed stop rule 0.001; domain alpha1*(1-theta) <= 0.5)',
    'ConvergenceError is counted as rejected (outside the solver\'s practical convergence region)',
]


def dn(n, places):
    return '%d.%0*d' % (n // 10 ** places, places, n % 10 ** places)


@st.composite
def params(draw, model):
    places = draw(st.sampled_from([8, 4, 8]))
    sc = 10 ** places
    while True:
        a1 = draw(st.integers(sc // 20, sc * 95 // 100))
        th = draw(st.integers(0, sc * 6 // 10))
        if Fraction(a1, sc) * (1 - Fraction(th, sc)) <= Fraction(3, 4):
            break
        th = sc * 6 // 10
        a1 = min(a1, sc * 7 // 10)
        break
    a2 = draw(st.integers(sc // 20, sc * 95 // 100))
    T = draw(st.integers(4, 12))
    G = []
    cur = draw(st.integers(100, 20000))
    for i in range(T + 1):
        if i and draw(gen.chance(1, 3)):
            cur = draw(st.integers(100, 20000))
        G.append(dn(cur, 2))
    spec = {'model': model, 'alpha1': dn(a1, places), 'alpha2': dn(a2, places), 'theta': dn(th, places), 'G': G, 'T': T,
            'places': places}
    nz = draw(st.integers(100, 30000))
    v0 = draw(st.sampled_from([nz, nz, nz, 0]))
    spec['V0'] = dn(v0, 2)
    if model == 'SIMEX1':
        spec['YD0'] = dn(draw(st.integers(0, 20000)), 2)
        # ... or no initial expected income stated at all: the library default 0 applies (the builder's own value 16
        # when the book's start-up values were asked for)
        spec['YD0_stated'] = draw(st.sampled_from([True, True, False]))
    if model == 'PC':
        spec['lambda0'] = dn(draw(st.integers(sc * 2 // 10, sc * 8 // 10)), places)
        spec['lambda1'] = dn(draw(st.integers(0, 8 * sc)), places)
        spec['lambda2'] = dn(draw(st.integers(0, sc * 5 // 100)), places)
        r = []
        cur = draw(st.integers(0, 800))
        for i in range(T + 1):
            if i and draw(gen.chance(1, 3)):
                cur = draw(st.integers(0, 800))
            r.append(dn(cur, 4))
        spec['r'] = r
        spec['B0'] = dn(draw(st.integers(0, v0)), 2)
        spec['YD0'] = dn(draw(st.integers(0, 20000)), 2)
    return spec


def closed_form(spec):
    F = Fraction
    a1, a2, th = F(spec['alpha1']), F(spec['alpha2']), F(spec['theta'])
    G = [F(g) for g in spec['G']]
    T = spec['T']
    V = [F(spec['V0'])]
    yd0 = spec.get('YD0', '0')
    if spec.get('YD0_stated') is False:
        yd0 = '16' if spec.get('book_start') else '0'
    out = {'Y': [None], 'T': [None], 'YD': [F(yd0)], 'C': [None], 'V': V}
    model = spec['model']
    if model == 'PC':
        l0, l1, l2 = F(spec['lambda0']), F(spec['lambda1']), F(spec['lambda2'])
        r = [F(x) for x in spec['r']]
        B = [F(spec['B0'])]
        H = [None]
        out['B'] = B
        out['H'] = H
    for k in range(1, T + 1):
        if model == 'SIM':
            Y = (G[k] + a2 * V[k - 1]) / (1 - a1 * (1 - th))
            Tx = th * Y
            YD = Y - Tx
            C = a1 * YD + a2 * V[k - 1]
        elif model == 'SIMEX1':
            C = a1 * out['YD'][k - 1] + a2 * V[k - 1]
            Y = C + G[k]
            Tx = th * Y
            YD = Y - Tx
        else:
            i = r[k - 1] * B[k - 1]
            YD = (1 - th) * (a2 * V[k - 1] + G[k] + i) / (1 - a1 * (1 - th))
            C = a1 * YD + a2 * V[k - 1]
            Y = C + G[k]
            Tx = th * (Y + i)
        Vk = V[k - 1] + YD - C
        out['Y'].append(Y)
        out['T'].append(Tx)
        out['YD'].append(YD)
        out['C'].append(C)
        V.append(Vk)
        if model == 'PC':
            Bk = Vk * (l0 + l1 * r[k]) - l2 * YD
            B.append(Bk)
            H.append(Vk - Bk)
    return out


def run_framework(spec):
    from sfc_models.gl_book.chapter3 import SIM, SIMEX1
    from sfc_models.gl_book.chapter4 import PC
    model = spec['model']
    cls = {'SIM': SIM, 'SIMEX1': SIMEX1, 'PC': PC}[model]
    code = 'C9'
    book_start = bool(spec.get('book_start'))
    # book_start: the builder's own exogenous paths and initial stocks are installed first and then overridden by the
    # user's (the documented semantics: a later definition overwrites an earlier one)
    mod = cls(code, use_book_exogenous=book_start).build_model()
    c = mod[code]
    hh = c['HH']
    tf = c['TF']
    if spec.get('params_as_exo'):
        # the parameters given as (constant) exogenous series, as the bundled example scripts vary them over time
        n_ = spec['T'] + 2
        mod.AddExogenous('HH', 'AlphaIncome', [float(spec['alpha1'])] * n_)
        hh.SetExogenous('AlphaFin', [float(spec['alpha2'])] * n_)
        tf.SetExogenous('TaxRate', [float(spec['theta'])] * n_)
    else:
        hh.AlphaIncome = float(spec['alpha1'])
        hh.AlphaFin = float(spec['alpha2'])
        tf.TaxRate = float(spec['theta'])
    gov = c['TRE'] if model == 'PC' else c['GOV']
    by_code = bool(spec.get('exo_by_code'))
    if by_code:
        # the model-level route, keyed by the sector's code (single country: the full code is the short code)
        mod.AddExogenous(gov.Code, 'DEM_GOOD', [float(g) for g in spec['G']])
    else:
        gov.SetExogenous('DEM_GOOD', [float(g) for g in spec['G']])
    v0 = float(spec['V0'])
    if v0 != 0.0 or model != 'SIM' or book_start:
        hh.AddInitialCondition('F', v0)
        gov.AddInitialCondition('F', -v0)
    if model in ('SIMEX1', 'PC') and spec.get('YD0_stated') is not False:
        hh.AddInitialCondition('AfterTax', float(spec['YD0']))
    if model == 'PC':
        hh.SetEquationRightHandSide('L0', spec['lambda0'])
        hh.SetEquationRightHandSide('L1', spec['lambda1'])
        hh.SetEquationRightHandSide('L2', spec['lambda2'])
        if by_code:
            mod.AddExogenous('DEP', 'r', [float(x) for x in spec['r']])
        else:
            c['DEP'].SetExogenous('r', [float(x) for x in spec['r']])
        hh.AddInitialCondition('DEM_DEP', float(spec['B0']))
    mod.MaxTime = spec['T']
    mod.EquationSolver.ParameterErrorTolerance = 1e-9
    labels = ['model:' + model, 'places:%d' % spec['places']] + (['book-start-overridden'] if book_start else [])
    try:
        mod.main()
    except Exception as ex:
        if type(ex).__name__ == 'ConvergenceError':
            raise Reject('ConvergenceError')
        raise Violation('C09/builder-fails', '%s with parameters %r fails: %s: %s' %
                        (model, {k: spec[k] for k in ('alpha1', 'alpha2', 'theta')}, type(ex).__name__, str(ex)[:200]))
    ref = closed_form(spec)
    q = float(Fraction(spec['alpha1']) * (1 - Fraction(spec['theta'])))
    gname = 'TRE' if model == 'PC' else 'GOV'
    pairs = [('GOOD__SUP_GOOD', 'Y'), (gname + '__T', 'T'), ('TF__T', 'T'), ('HH__AfterTax', 'YD'), ('HH__DEM_GOOD', 'C'),
             ('HH__F', 'V')]
    if model == 'PC':
        pairs += [('HH__DEM_DEP', 'B'), ('HH__DEM_MON', 'H')]
    for var, key in pairs:
        series = mod.GetTimeSeries(var)
        for k in range(1, spec['T'] + 1):
            want = float(ref[key][k])
            got = series[k]
            bound = 1e-6 * max(1.0, abs(want)) / (1.0 - q)
            if not abs(got - want) <= bound:
                raise Violation('C09/series-differs',
                                '%s: %s[%d] = %r, closed form %s = %r (diff %.3g, bound %.3g); alpha1=%s alpha2=%s theta=%s' %
                                (model, var, k, got, key, want, abs(got - want), bound, spec['alpha1'], spec['alpha2'],
                                 spec['theta']))
    book = (spec['alpha1'].rstrip('0') in ('0.6',), spec['alpha2'].rstrip('0') in ('0.4',), spec['theta'].rstrip('0') in ('0.2',))
    nt = not any(book) and len(set(spec['G'])) >= 2 and float(spec['V0']) != 0.0
    return {'nontrivial': nt, 'labels': labels}


@st.composite
def fw_case(draw):
    spec = draw(params(draw(st.sampled_from(['PC', 'SIM', 'SIMEX1']))))
    spec['book_start'] = draw(st.sampled_from([False, False, True]))
    spec['exo_by_code'] = draw(st.booleans())
    spec['params_as_exo'] = draw(st.sampled_from([False, False, True]))
    return spec


@st.composite
def hand_case(draw):
    spec = draw(params('SIM'))
    return spec


def run_hand(spec):
    from sfc_models.gl_book.model_SIM_iterative import ModelSIMiterative
    m = ModelSIMiterative()
    m.theta = float(spec['theta'])
    m.alpha1 = float(spec['alpha1'])
    m.alpha2 = float(spec['alpha2'])
    m.H = [float(spec['V0'])]
    m.G = [float(g) for g in spec['G']]
    try:
        m.main()
    except Exception as ex:
        raise Violation('C09/hand-coded-fails', 'ModelSIMiterative fails: %s: %s' % (type(ex).__name__, ex))
    ref = closed_form(spec)
    q = float(Fraction(spec['alpha1']) * (1 - Fraction(spec['theta'])))
    for attr, key in (('Y', 'Y'), ('YD', 'YD'), ('tax', 'T'), ('C', 'C'), ('H', 'V')):
        series = getattr(m, attr)
        if len(series) != spec['T'] + 1:
            raise Violation('C09/hand-coded-length', '%s has %d points for %d periods' % (attr, len(series), spec['T']))
        for k in range(1, spec['T'] + 1):
            want = float(ref[key][k])
            bound = 0.002 * (k + 1) / (1.0 - q)
            if not abs(series[k] - want) <= bound:
                raise Violation('C09/hand-coded-differs', 'ModelSIMiterative.%s[%d] = %r, closed form %r (bound %.3g)' %
                                (attr, k, series[k], want, bound))
    nt = len(set(spec['G'])) >= 2 and float(spec['V0']) != 0.0
    return {'nontrivial': nt, 'labels': ['hand-coded']}


@st.composite
def method2_case(draw):
    spec = draw(params('SIM'))
    # RunMethod2 iterates the whole vector (Jacobi) with a cap of 100 sweeps: keep alpha1*(1-theta) <= 0.5
    from fractions import Fraction as F
    if F(spec['alpha1']) * (1 - F(spec['theta'])) > F(1, 2):
        spec['alpha1'] = dn(int(F(spec['alpha1']) * 10 ** spec['places']) // 2, spec['places'])
    return spec


def run_method2(spec):
    from sfc_models.gl_book.model_SIM_iterative import ModelSIMiterative
    m = ModelSIMiterative()
    m.theta = float(spec['theta'])
    m.alpha1 = float(spec['alpha1'])
    m.alpha2 = float(spec['alpha2'])
    m.H = [float(spec['V0'])]
    m.G = [float(g) for g in spec['G']]
    try:
        for _ in range(spec['T']):
            m.RunMethod2()
    except Exception as ex:
        if 'No convergence' in str(ex):
            raise Reject('RunMethod2 did not converge within its own cap')
        raise Violation('C09/hand-coded-fails', 'ModelSIMiterative.RunMethod2 fails: %s: %s' % (type(ex).__name__, ex))
    ref = closed_form(spec)
    q = float(Fraction(spec['alpha1']) * (1 - Fraction(spec['theta'])))
    for attr, key in (('Y', 'Y'), ('YD', 'YD'), ('tax', 'T'), ('C', 'C'), ('H', 'V')):
        series = getattr(m, attr)
        if len(series) != spec['T'] + 1:
            raise Violation('C09/hand-coded-length', 'RunMethod2: %s has %d points for %d periods' % (attr, len(series), spec['T']))
        for k in range(1, spec['T'] + 1):
            want = float(ref[key][k])
            bound = 0.02 * (k + 1) / (1.0 - q)
            if not abs(series[k] - want) <= bound:
                raise Violation('C09/hand-coded-differs', 'ModelSIMiterative.RunMethod2: %s[%d] = %r, closed form %r (bound %.3g)' %
                                (attr, k, series[k], want, bound))
    return {'nontrivial': len(set(spec['G'])) >= 2 and float(spec['V0']) != 0.0, 'labels': ['method2']}


FAMILIES = [
    Family('framework-models', fw_case, run_framework, quick=640, thorough=10000),
    Family('hand-coded-SIM-method2', method2_case, run_method2, quick=800, thorough=20000),
    Family('hand-coded-SIM', hand_case, run_hand, quick=1600, thorough=40000),
]

MANIFEST_INFO = {
    'level_text': 'Generated-input exploration of the parameter/path/initial-stock space of the bundled textbook models; every '
                  'compared series of the real solve is checked against the book recursion evaluated independently in exact '
                  'arithmetic.',
    'design_ref': 'DESIGN.md section 3, C09',
    'level_note': 'Trusted: the closed-form recursions written in the harness from the book equations. Domain restricted to the '
                  'iterative solver\'s convergence region alpha1(1-theta) <= 0.75.',
    'technique': 'property-based testing (parameter-space generator; independent closed-form reference model)',
}
