"""
C10 - exogenous paths, initial conditions and horizon are honoured verbatim.
Code under test: EquationParser.ParseString, EquationSolver.SetInitialConditions/SolveEquation,
Model.AddExogenous/AddInitialCondition/MaxTime.
Oracle: verbatim comparison with what the generator supplied.
"""
import math

from hypothesis import strategies as st

from harness.core import Family, Violation, Reject
from harness import blocks, expr, gen

PROPERTY_ID = 'C10'
RULE = ('Contractive BlockSpecs (horizon 0-6) whose exogenous variables are given as list text, repeat/concat '
        'expressions, tuple text, list/tuple/float Python objects, float scalar text, int and float elements; longer than '
        'needed, exact, or too short by 1..n; unevaluable exogenous text; initial conditions (literal and expression '
        'text) on simultaneous, lagged, leaf, alias and constant variables; unevaluable initial conditions; horizon via '
        'the MaxTime line or EquationSolver.MaxTime (contradicting the line); user-defined t. Second family: book model SIM '
        'with Model.AddExogenous (list/tuple/str), AddInitialCondition and Model.MaxTime. Non-trivial: an exogenous series '
        'strictly longer than horizon+1 or a scalar, together with an initial condition on a non-simultaneous variable; '
        'or an invalid-input case. Distinct: sha1 of the spec.')
RULE = RULE + (' Input shapes added after the seeded-change rounds (DESIGN.md section 8): ' + 'math constants / functions in constant expressions; values needing all 17 significant digits; the horizon set on the solver, edited on the parser afterwards, or set too late to matter.')
ASSUMPTIONS = [
    'initial conditions on exogenous variables are outside the quantifier and not generated',
    'an int scalar exogenous value may be either broadcast or refused (the statement only promises float scalars)',
    'steady-state initialisation is off',
]

IC_TEXTS = ['5.0', '0.0', '-2.5', '10', '0', '0.125', '1e1', '3.', '2*3', 'sqrt(4.)', '1/4', '-(2.0)', '0.', '-0.0', '1 - 1',
            '2*pi', 'e', '-pi/2', 'floor(7.5)', 'tau/4', 'exp(1.0)', 'max(1.0, 2.5)', '86.48648648648649',
            '0.30000000000000004', '1/3']
# constant expressions may use everything the math library offers (functions AND constants)
MATH_ITEMS = ['pi', 'e', '2*pi', 'sqrt(2.0)', 'exp(1.0)', '-tau', 'floor(2.5)', 'pi/2', '1.5', 'log(10.0)']
BAD_TEXTS = ['undefined_name', '[1., 2.', 'foo(3)', '1/0', '[1.0, 2.0] + nothing']


def _is_convergence_error(err):
    from sfc_models.equation_solver import ConvergenceError
    return isinstance(err, ConvergenceError)


@st.composite
def block_case(draw):
    spec = draw(blocks.system(n_sim=(1, 4), q_hi=70, lags=(0, 3), exos=(1, 3), consts=(0, 2), aliases=(0, 1),
                              leaves=(0, 2), horizon=(0, 6), ic_prob=0, tols=('1e-6', '1e-8'),
                              user_t=(False, False, True)))
    T = spec['maxtime']
    # horizon mode
    # text: MaxTime line only; attr: set on the solver before parsing (overrides the text); parser-edit: the parsed value
    # is edited afterwards (solver.Parser.MaxTime = T, as one of the bundled examples does) after another value had been
    # set on the solver; late-attr: the text states T and the solver attribute is assigned only after parsing (too late
    # to matter).  In every mode the horizon in force when the solve starts is T.
    spec['horizon_mode'] = draw(st.sampled_from(['text', 'text', 'attr', 'parser-edit', 'late-attr']))
    if spec['horizon_mode'] != 'text':
        spec['text_maxtime'] = draw(st.integers(0, 9))
    # exogenous forms
    new_exo = []
    invalid = None
    for name, text, form, values in spec['exo']:
        kind = draw(st.sampled_from(['keep', 'keep', 'obj-list', 'obj-tuple', 'scalar-text', 'scalar-obj', 'ints', 'math-text',
                                     'long', 'long', 'keep', 'obj-list', 'scalar-text', 'ints', 'short', 'bad-text', 'int-scalar-text',
                                     'math-text']))
        if kind == 'keep':
            new_exo.append([name, text, 'str', values, 'ok'])
        elif kind in ('obj-list', 'obj-tuple'):
            div = draw(st.sampled_from([10.0, 7.0, 3.0]))      # (sevenths and thirds need all 17 significant digits)
            vals = [draw(st.integers(-300, 300)) / div for _ in range(T + 1 + draw(st.integers(0, 3)))]
            new_exo.append([name, None, kind, vals, 'ok'])
        elif kind == 'scalar-text':
            v = draw(st.integers(-300, 300)) / 10.0
            new_exo.append([name, repr(v), 'str', [v] * (T + 1), 'ok'])
        elif kind == 'math-text':
            # a string expression written with math-library constants / functions: scalar, repeated list or plain list
            shape = draw(st.sampled_from(['scalar', 'repeat', 'list', 'concat']))
            a, b = draw(st.sampled_from(MATH_ITEMS)), draw(st.sampled_from(MATH_ITEMS))
            if shape == 'scalar' and not isinstance(expr.float_eval(a, {}), float):
                shape = 'repeat'      # (an int-valued scalar is not "a float scalar"; covered by int-scalar-text)
            if shape == 'scalar':
                txt = a
                vals = [float(expr.float_eval(a, {}))] * (T + 1)
            elif shape == 'repeat':
                n = T + 1 + draw(st.integers(0, 2))
                txt = '[%s]*%d' % (a, n)
                vals = [float(expr.float_eval(a, {}))] * n
            elif shape == 'concat':
                n1 = draw(st.integers(1, T + 1))
                n2 = T + 1 - n1 + draw(st.integers(0, 2))
                txt = '[%s]*%d + [%s,]*%d' % (a, n1, b, n2)
                vals = [float(expr.float_eval(a, {}))] * n1 + [float(expr.float_eval(b, {}))] * n2
            else:
                items = [draw(st.sampled_from(MATH_ITEMS)) for _ in range(T + 1 + draw(st.integers(0, 2)))]
                txt = '[' + ', '.join(items) + ']'
                vals = [float(expr.float_eval(x, {})) for x in items]
            new_exo.append([name, txt, 'str', vals, 'ok'])
        elif kind == 'scalar-obj':
            v = draw(st.integers(-300, 300)) / 10.0
            new_exo.append([name, None, 'obj-float', [v] * (T + 1), 'ok'])
        elif kind == 'ints':
            vals = [draw(st.integers(-30, 30)) for _ in range(T + 1 + draw(st.integers(0, 2)))]
            new_exo.append([name, repr(vals), 'str', vals, 'ok'])
        elif kind == 'long':
            div = draw(st.sampled_from([10.0, 7.0, 3.0]))
            vals = [draw(st.integers(-300, 300)) / div for _ in range(T + 2 + draw(st.integers(0, 5)))]
            new_exo.append([name, repr(vals), 'str', vals, 'ok'])
        elif kind == 'short':
            n = draw(st.integers(0, T))
            vals = [draw(st.integers(-300, 300)) / 10.0 for _ in range(n)]
            new_exo.append([name, repr(vals), draw(st.sampled_from(['str', 'obj-list'])), vals, 'short'])
            invalid = 'short'
        elif kind == 'bad-text':
            new_exo.append([name, draw(st.sampled_from(BAD_TEXTS)), 'str', None, 'bad'])
            invalid = 'bad-exogenous'
        else:
            v = draw(st.integers(-30, 30))
            new_exo.append([name, str(v), 'str', [v] * (T + 1), 'int-scalar'])
    spec['exo'] = [[a, b if b is not None else repr(d), c, d] for a, b, c, d, e in new_exo]
    spec['exo_status'] = {a: e for a, b, c, d, e in new_exo}
    # initial conditions
    cands = [e[0] for e in spec['eqs'] if e[2] != 't'] + [l[0] for l in spec['lags']]
    ics = []
    for nm in cands:
        if draw(gen.chance(1, 4)):
            if draw(gen.chance(1, 30)):
                ics.append([nm, draw(st.sampled_from(BAD_TEXTS[:3]))])
                invalid = invalid or 'bad-ic'
            else:
                ics.append([nm, draw(st.sampled_from(IC_TEXTS))])
    spec['ics'] = ics
    spec['layout']['perm'] = None
    spec['invalid'] = invalid
    spec['reduction'] = draw(st.booleans())
    return spec


def run_block(spec):
    from sfc_models.equation_solver import EquationSolver
    T = spec['maxtime']
    labels = ['horizon:' + spec['horizon_mode'], 'reduction:%s' % spec['reduction']]
    if spec['horizon_mode'] in ('attr', 'parser-edit'):
        tmp = dict(spec)
        tmp['maxtime'] = spec['text_maxtime']
        text = blocks.render(tmp)
    else:
        text = blocks.render(spec)
    es = EquationSolver(run_equation_reduction=spec['reduction'])
    for fn, f in blocks.USER_FUNCS.items():
        es.AddFunction(fn, f)
    if spec['horizon_mode'] == 'attr':
        es.MaxTime = T
    if spec['horizon_mode'] == 'parser-edit':
        es.MaxTime = (spec['text_maxtime'] + 3) % 7
    outcome, err = 'ok', None
    try:
        es.ParseString(text)
        if spec['horizon_mode'] == 'parser-edit':
            es.Parser.MaxTime = T
        if spec['horizon_mode'] == 'late-attr':
            es.MaxTime = spec['text_maxtime']
        # Python-object forms are installed the way the suite does it: by replacing the parsed entry
        objs = {}
        for name, txt, form, values in spec['exo']:
            if form == 'obj-list':
                objs[name] = list(values)
            elif form == 'obj-tuple':
                objs[name] = tuple(values)
            elif form == 'obj-float':
                objs[name] = float(values[0]) if values else 0.0
        if objs:
            es.Parser.Exogenous = [(n, objs.get(n, v)) for n, v in es.Parser.Exogenous]
        es.SolveEquation()
    except Exception as ex:
        outcome, err = type(ex).__name__, ex
    ts = es.TimeSeries
    status = spec['exo_status']
    if spec['invalid']:
        labels.append('invalid:' + spec['invalid'])
        if outcome == 'ok':
            raise Violation('C10/invalid-accepted', 'input with %s was solved without an error' % spec['invalid'])
        # the statement promises "an error", not a particular class: any exception counts as a rejection
        labels.append('error:' + outcome)
        for name, series in ts.items():
            if len(series) > 1:
                raise Violation('C10/invalid-produced-numbers', 'after the error %s has %d values' % (name, len(series)))
        return {'nontrivial': True, 'labels': labels}
    if outcome != 'ok':
        if any(v == 'int-scalar' for v in status.values()) and isinstance(err, ValueError):
            labels.append('int-scalar-refused')
            return {'nontrivial': False, 'labels': labels}
        if _is_convergence_error(err):
            raise Reject('no convergence')
        raise Violation('C10/valid-refused', 'valid input raised %s: %s' % (outcome, err))
    # ---- success: lengths
    expected_names = [e[0] for e in spec['eqs']] + [l[0] for l in spec['lags']] + [e[0] for e in spec['exo']] + ['k', 't']
    for name in expected_names:
        if name not in ts:
            raise Violation('C10/missing', 'variable %s missing from results' % name)
    for name, series in ts.items():
        if len(series) != T + 1:
            raise Violation('C10/length', '%s has %d values, horizon+1 = %d (horizon via %s)' %
                            (name, len(series), T + 1, spec['horizon_mode']))
    # exogenous verbatim
    longer = False
    for name, txt, form, values in spec['exo']:
        want = list(values[:T + 1])
        got = list(ts[name])
        if got != want or any(type(a) is not type(b) and float(a) != float(b) for a, b in zip(got, want)):
            raise Violation('C10/exogenous', '%s (%s) reported %r, supplied %r' % (name, form, got, want))
        if len(values) > T + 1 or status[name] != 'ok' or form == 'obj-float' or txt == repr(values[0] if values else 0):
            longer = True
    # initial conditions
    nonsim_ic = False
    sim_names = set(e[0] for e in spec['eqs'] if e[2] == 'sim')
    for name, txt in spec['ics']:
        want = float(expr.float_eval(txt, {}))
        if ts[name][0] != want:
            raise Violation('C10/initial-condition', '%s(0) = %s but reported %r' % (name, txt, ts[name][0]))
        if name not in sim_names:
            nonsim_ic = True
    # lags
    for lagn, src, spell in spec['lags']:
        for k in range(1, T + 1):
            if ts[lagn][k] != ts[src][k - 1]:
                raise Violation('C10/lag', '%s[%d]=%r, %s[%d]=%r' % (lagn, k, ts[lagn][k], src, k - 1, ts[src][k - 1]))
    # time axis
    if list(ts['k']) != [float(i) for i in range(T + 1)]:
        raise Violation('C10/k-axis', 'k = %r' % (ts['k'],))
    user_t = [e for e in spec['eqs'] if e[2] == 't']
    if not user_t:
        if list(ts['t']) != list(ts['k']):
            raise Violation('C10/t-axis', 't = %r, k = %r' % (ts['t'], ts['k']))
    else:
        labels.append('user-t')
        for k in range(1, T + 1):
            want = expr.float_eval(user_t[0][1], {'k': float(k)})
            if ts['t'][k] != want:
                raise Violation('C10/t-axis-user', 't[%d] = %r, definition %s gives %r' % (k, ts['t'][k], user_t[0][1], want))
    if longer:
        labels.append('truncation-or-scalar')
    if nonsim_ic:
        labels.append('ic-on-nonsimultaneous')
    return {'nontrivial': longer and nonsim_ic, 'labels': labels}


# ------------------------------------------------------------------------------------------ model level
@st.composite
def model_case(draw):
    T = draw(st.integers(1, 6))
    n = T + 1 + draw(st.integers(-2, 4))
    n = max(n, 0)
    vals = [draw(st.integers(0, 400)) / 10.0 for _ in range(n)]
    form = draw(st.sampled_from(['list', 'tuple', 'str', 'str-expr']))
    ics = []
    for sec, var in [('HH', 'F'), ('GOV', 'F'), ('HH', 'AfterTax'), ('HH', 'LAG_F'), ('BUS', 'PROF'), ('TF', 'TaxRate'),
                     ('HH', 'AlphaFin')]:
        if draw(gen.chance(1, 4)):
            ics.append([sec, var, draw(st.sampled_from([5.0, 0.0, -2.5, 10, 0.125, '3.5', 80, 0,
                                                        # floats that need all 17 significant digits
                                                        86.48648648648649, 0.3333333333333333, 14.285714285714286,
                                                        0.30000000000000004, 123456789.12345679, -2.718281828459045]))])
    earlier = None
    if draw(gen.chance(1, 3)):
        earlier = [draw(st.integers(0, 400)) / 10.0 for _ in range(T + 1 + draw(st.integers(0, 2)))]
    bad = draw(st.sampled_from([None] * 8 + ['ic-not-a-number', 'ic-unknown-variable', 'exo-unknown-variable',
                                             'exo-unevaluable']))
    return {'T': T, 'values': vals, 'form': form, 'ics': ics, 'via': draw(st.sampled_from(['model', 'sector'])),
            'earlier': earlier, 'earlier_ics': draw(st.booleans()), 'bad': bad}


def run_model(spec):
    from sfc_models.gl_book.chapter3 import SIM
    T = spec['T']
    vals = spec['values']
    builder = SIM('C1', use_book_exogenous=False)
    mod = builder.build_model()
    gov = mod['C1']['GOV']
    form = spec['form']
    if form == 'list':
        value = list(vals)
    elif form == 'tuple':
        value = tuple(vals)
    elif form == 'str':
        value = repr(list(vals))
    else:
        value = repr(list(vals[:1])) + ' + ' + repr(list(vals[1:]))
    if spec.get('earlier') is not None:
        # a default path set first (e.g. by a model-building helper) and then overridden: the later definition counts
        gov.SetExogenous('DEM_GOOD', list(spec['earlier']))
        if spec.get('earlier_ics'):
            for sec, var, v in spec['ics']:
                mod.AddInitialCondition(sec, var, float(v) + 1.5)
    if spec['via'] == 'sector':
        gov.SetExogenous('DEM_GOOD', value)
    else:
        mod.AddExogenous('GOV', 'DEM_GOOD', value)
    for sec, var, v in spec['ics']:
        if spec['via'] == 'sector':
            mod['C1'][sec].AddInitialCondition(var, v)
        else:
            mod.AddInitialCondition(sec, var, v)
    mod.MaxTime = T
    if spec.get('bad') is not None:
        labels = ['bad:' + spec['bad']]
        try:
            if spec['bad'] == 'ic-not-a-number':
                mod.AddInitialCondition('HH', 'F', 'a lot')
            elif spec['bad'] == 'ic-unknown-variable':
                mod.AddInitialCondition('HH', 'NO_SUCH_VARIABLE', 1.0)
            elif spec['bad'] == 'exo-unknown-variable':
                mod.AddExogenous('HH', 'NO_SUCH_VARIABLE', '[1.0]*20')
            else:
                mod.AddExogenous('HH', 'AlphaFin', '[0.4]*20 + nothing')
            mod.main()
        except Exception as ex:
            if any(len(s_) > 1 for s_ in mod.EquationSolver.TimeSeries.values()):
                raise Violation('C10/model-invalid-produced-numbers', '%s: periods were solved before the error' % spec['bad'])
            return {'nontrivial': True, 'labels': labels + ['error:' + type(ex).__name__]}
        raise Violation('C10/model-invalid-accepted', 'invalid input (%s) was solved without an error' % spec['bad'])
    short = len(vals) < T + 1
    labels = ['form:' + form, 'short' if short else 'enough'] + (['path-overridden'] if spec.get('earlier') is not None else [])
    try:
        mod.main()
        outcome, err = 'ok', None
    except Exception as ex:
        outcome, err = type(ex).__name__, ex
    ts = mod.EquationSolver.TimeSeries
    if short:
        if outcome == 'ok':
            raise Violation('C10/model-short-accepted', 'exogenous series of %d values accepted for horizon %d' % (len(vals), T))
        labels.append('error:' + outcome)
        if any(len(s) > 1 for s in ts.values()):
            raise Violation('C10/model-short-produced-numbers', 'series longer than one point after the error')
        return {'nontrivial': True, 'labels': labels}
    if outcome != 'ok':
        if _is_convergence_error(err):
            raise Reject('no convergence')
        raise Violation('C10/model-valid-refused', 'valid model input raised %s: %s' % (outcome, err))
    for name, series in ts.items():
        if len(series) != T + 1:
            raise Violation('C10/model-length', '%s has %d values for Model.MaxTime=%d' % (name, len(series), T))
    if list(ts['GOV__DEM_GOOD']) != list(vals[:T + 1]):
        raise Violation('C10/model-exogenous', 'GOV__DEM_GOOD reported %r, supplied %r' % (ts['GOV__DEM_GOOD'], vals[:T + 1]))
    for sec, var, v in spec['ics']:
        if ts['%s__%s' % (sec, var)][0] != float(v):
            raise Violation('C10/model-initial-condition', '%s__%s(0)=%r but reported %r' %
                            (sec, var, v, ts['%s__%s' % (sec, var)][0]))
    for k in range(1, T + 1):
        if ts['HH__LAG_F'][k] != ts['HH__F'][k - 1]:
            raise Violation('C10/model-lag', 'HH__LAG_F[%d] != HH__F[%d]' % (k, k - 1))
    if list(ts['t']) != list(ts['k']) or list(ts['k']) != [float(i) for i in range(T + 1)]:
        raise Violation('C10/model-time-axis', 't=%r k=%r' % (ts['t'], ts['k']))
    return {'nontrivial': len(vals) > T + 1 and bool(spec['ics']), 'labels': labels}


FAMILIES = [
    Family('block', block_case, run_block, quick=3000, thorough=120000),
    Family('model', model_case, run_model, quick=160, thorough=5000),
]

MANIFEST_INFO = {
    'level_text': 'Generated-input exploration of exogenous/initial-condition/horizon specifications at the solver and the '
                  'Model level with a verbatim oracle (the generator knows the supplied numbers), including the reject '
                  'direction for short or unevaluable input.',
    'design_ref': 'DESIGN.md section 3, C10',
    'level_note': 'Trusted: the generator\'s record of what it supplied. ICs on exogenous variables not generated.',
    'technique': 'property-based testing (structured input-spec generator; verbatim/round-trip oracle)',
}
