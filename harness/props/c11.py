"""
C11 - unsolvable or invalid input fails loudly and in bounded work; contraction => success.
"""
import builtins
import keyword
import math

from hypothesis import strategies as st

from harness.core import Family, Violation, Reject
from harness import blocks, gen
from harness.props import c02

PROPERTY_ID = 'C11'
RULE = ('Four families. fault: contractive BlockSpec with an injected fault scheduled at period p through an exogenous '
        'switch (expansive gain 1.5..1e6, oscillating gain, persistent 1/0 or log(0) in the simultaneous block, 1/0 in a '
        'derived-only variable, exp overflow, transient 1/0 that clears), caps 0..400, reduction on/off; a probe function '
        'probe(value, k) wrapped round one row counts sweeps per period; the step trace is switched on for the failing '
        'period. contraction: certified sup-norm contractions q<=0.8 (affine and mildly non-linear), <=12 simultaneous '
        'variables, |constants|<=1e3, tol>=1e-8, default cap: must be solved. invalid-names: a reserved/shadowing name '
        '(keyword, builtin, math name, k) as left-hand side or a reserved token on a right-hand side. invalid-models: '
        'duplicate country/sector codes, "__" in local names or sector codes, market without or with ambiguous suppliers, '
        'cross-currency flow/supplier without external sector. Non-trivial: fault at p>=2 actually failing; contraction '
        'with q>=0.5 and >=4 variables; every invalid case. Distinct: sha1 of the spec.')
RULE = RULE + (' Input shapes added after the seeded-change rounds (DESIGN.md section 8): ' + 'a sweep-counting function that stops a solve 10 sweeps past its cap; per-case watchdog; duplicates given as equal-but-not-identical strings.')
ASSUMPTIONS = [
    'acceptable failure classes: ValueError family (ConvergenceError, LogicError) and ArithmeticError family',
    'sweeps are counted by a user function registered through the public AddFunction API and by the public step trace; '
    'the counting function aborts a solve that is 10 sweeps past its own cap (reported as sweeps-exceed-cap), and every case '
    'of the fault/contraction families runs under a 120 s wall-clock watchdog (C11/no-termination): bounded work is what the '
    'property states, so a solve that does not come back is a violation here, not an inconclusive case',
    'after a failure in period f the already solved periods are compared, value for value, with a solve of horizon f-1',
]

CAPS = [400, None, 50, 5, 2, 1, 0, None]


class SweepBudgetExceeded(BaseException):
    """Raised by the sweep-counting probe function (BaseException: nothing in between may swallow it)."""


@st.composite
def fault_case(draw):
    spec = draw(blocks.system(n_sim=(1, 4), q_hi=60, lags=(0, 2), exos=(0, 1), consts=(0, 1), aliases=(0, 0),
                              leaves=(0, 1), horizon=(2, 6), tols=('1e-4', '1e-6', '1e-8'), user_t=(False,)))
    T = spec['maxtime']
    p = draw(st.sampled_from(list(range(T, 0, -1))))
    kind = draw(st.sampled_from(['expand', 'expand', 'oscillate', 'div0-sim', 'log0-sim', 'div0-leaf', 'overflow-exp',
                                 'transient', 'none']))
    first = spec['eqs'][0][0]
    sw = 'FAULT'
    persist = draw(st.booleans())
    if kind in ('expand', 'oscillate'):
        g = draw(st.sampled_from([1.0, 1.5, 3.0, 1e3, 1e6] if kind == 'expand' else [1.0, 1.5, 3.0, 50.0]))
        vals = [0.0] * p + [g] * (T + 1 - p)
        sign = '+' if kind == 'expand' else '-'
        spec['eqs'][0][1] = spec['eqs'][0][1] + ' ' + sign + ' ' + sw + '*' + first
    else:
        vals = [0.0] * p + ([1.0] * (T + 1 - p) if persist else [1.0] + [0.0] * (T - p))
        if kind == 'div0-sim':
            spec['eqs'].append(['bad', '0.1*bad + 1.0/(1.0 - %s)' % sw, 'sim'])
        elif kind == 'log0-sim':
            spec['eqs'].append(['bad', '0.1*bad + log(1.0 - %s)' % sw, 'sim'])
        elif kind == 'div0-leaf':
            spec['eqs'].append(['bad', '1.0/(1.0 - %s)' % sw, 'leaf'])
        elif kind == 'overflow-exp':
            spec['eqs'].append(['bad', '0.1*bad + exp(%s*1000.0)' % sw, 'sim'])
        elif kind == 'transient':
            spec['eqs'].append(['w0', '2.0 + 0.1*w0', 'sim'])
            spec['eqs'].append(['tr', '0.1*tr + 1.0/w0', 'sim'])
    spec['cert']['lam'][first] = None
    for nm in ('bad', 'tr', 'w0'):
        spec['cert']['lam'][nm] = None
    spec['exo'].append([sw, repr(vals), 'list', vals])
    # probe round the first row
    spec['eqs'][0][1] = 'probe(' + spec['eqs'][0][1] + ', k)'
    spec['layout']['perm'] = None
    spec['fault'] = {'kind': kind, 'p': p}
    spec['reduction'] = draw(st.booleans())
    spec['max_iter'] = draw(st.sampled_from(CAPS))
    # a tolerance set on the solver object overrides the block's; exactly 0.0 means "iterate to an exact fixed point"
    spec['tol_param'] = draw(st.sampled_from([None, None, None, 0.0, 1e-3]))
    spec['cert']['family'] = 'fault:' + kind
    return spec


def solve_with_probe(spec, maxtime=None, trace_step=None):
    from sfc_models.equation_solver import EquationSolver
    counts = {}
    cap_ = 400 if spec['max_iter'] is None else spec['max_iter']

    def probe(value, k):
        counts[k] = counts.get(k, 0) + 1
        if k >= 1 and counts[k] > cap_ + 10:
            # the solver is well past its own iteration cap in this period: stop it here instead of waiting for ever
            raise SweepBudgetExceeded(k, counts[k])
        return value

    s2 = dict(spec)
    if maxtime is not None:
        s2['maxtime'] = maxtime
    es = EquationSolver(run_equation_reduction=spec['reduction'])
    for fn, f in blocks.USER_FUNCS.items():
        es.AddFunction(fn, f)
    es.AddFunction('probe', probe)
    if spec['max_iter'] is not None:
        es.MaxIterations = spec['max_iter']
    if spec.get('tol_param') is not None:
        es.ParameterErrorTolerance = spec['tol_param']
    if trace_step is not None:
        es.TraceStep = trace_step
    try:
        es.ParseString(blocks.render(s2))
        es.SolveEquation()
    except SweepBudgetExceeded as ex:
        raise Violation('C11/sweeps-exceed-cap', 'period %s: the solver was still sweeping after %d sweeps with an iteration '
                                                 'cap of %d (fault %s; stopped by the harness)' %
                        (ex.args[0], ex.args[1], cap_, spec['fault']['kind'] if 'fault' in spec else '-'))
    except Exception as ex:
        return type(ex).__name__, es, ex, counts
    return 'ok', es, None, counts


def run_fault(spec):
    outcome, es, ex, counts = solve_with_probe(spec)
    kind = spec['fault']['kind']
    labels = ['kind:' + kind, 'outcome:' + outcome, 'cap:%s' % spec['max_iter']]
    cap = 400 if spec['max_iter'] is None else spec['max_iter']
    T = spec['maxtime']
    if outcome == 'ok':
        s2 = dict(spec)
        # validity of the returned values (C02 oracle); probe(v, k) = v
        c02_spec = dict(s2)
        c02_spec['eqs'] = [[n, r, kd] for n, r, kd in spec['eqs']]
        env_probe = {'probe': (lambda v, k: v)}
        blocks.USER_FUNCS.update(env_probe)
        try:
            c02.check_returned(c02_spec, es, spec['reduction'], bucket_prefix='C11/returned')
        finally:
            blocks.USER_FUNCS.pop('probe', None)
        for k, n in counts.items():
            if k >= 1 and n > cap + 1:
                raise Violation('C11/sweeps-exceed-cap', 'period %s used %d sweeps with cap %d' % (k, n, cap))
        return {'nontrivial': kind in ('transient', 'oscillate') and T >= 2, 'labels': labels}
    if not isinstance(ex, (ValueError, ArithmeticError)):
        raise Violation('C11/wrong-exception-class', 'fault %s ended in %s: %s' % (kind, outcome, ex))
    ts = es.TimeSeries
    exo_names = set(e[0] for e in spec['exo']) | {'k'}
    lengths = {name: len(series) for name, series in ts.items() if name not in exo_names}
    if len(set(lengths.values())) > 1:
        raise Violation('C11/ragged-after-failure', 'after %s (%s) the series lengths differ: %r' % (outcome, ex, lengths))
    if not lengths:
        raise Violation('C11/no-series-after-failure', 'TimeSeries empty after a failure during solving')
    f = list(lengths.values())[0]        # failing period
    if f < 1 or f > T:
        raise Violation('C11/failing-period', 'series have length %d after a failure (horizon %d)' % (f, T))
    # bounded work in the failing period
    n = counts.get(float(f), counts.get(f, 0))
    if n > cap + 1:
        raise Violation('C11/sweeps-exceed-cap', 'failing period %d used %d sweeps, cap %d (%s)' % (f, n, cap, outcome))
    # the trace agrees
    o3, es3, ex3, c3 = solve_with_probe(spec, trace_step=f)
    if o3 != outcome:
        raise Violation('C11/trace-changes-outcome', 'with TraceStep=%d the outcome is %s instead of %s' % (f, o3, outcome))
    tr = es3.TimeSeriesStepTrace.get('iteration', [])
    if len(tr) > cap + 1:
        raise Violation('C11/sweeps-exceed-cap', 'step trace of period %d records %d sweeps, cap %d' % (f, len(tr), cap))
    # solved prefix intact: equals a solve with horizon f-1
    o2, es2, ex2, c2 = solve_with_probe(spec, maxtime=f - 1)
    if o2 != 'ok':
        raise Violation('C11/prefix-not-solvable', 'horizon %d fails (%s) although the full run failed only in period %d' %
                        (f - 1, o2, f))
    for name, series in ts.items():
        if name in exo_names:
            continue
        if list(series) != list(es2.TimeSeries[name]):
            raise Violation('C11/prefix-changed', '%s after failure in period %d: %r, solved alone: %r' %
                            (name, f, series, es2.TimeSeries[name]))
    return {'nontrivial': f >= 2, 'labels': labels + ['failed-at>=2' if f >= 2 else 'failed-at-1']}


# ---------------------------------------------------------------------------------------------------
@st.composite
def contraction_case(draw):
    nonlinear = draw(st.booleans())
    if draw(st.sampled_from([True, False, False, False])):
        # the corner of the stated domain: few variables, gain close to 0.8, constants close to 1e3 (fixed points in
        # the thousands), the tightest tolerances - where the error measure switches from relative to absolute
        spec = draw(blocks.system(n_sim=(1, 2), q_hi=80, q_lo=70, lags=(0, 0), exos=(0, 0), consts=(0, 0), aliases=(0, 0),
                                  leaves=(0, 1), horizon=(1, 3), nonlinear=False, const_mag=100000,
                                  tols=('1e-8', '1e-7'), user_t=(False,), feedforward=False, max_row_terms=2,
                                  time_terms=False))
        for e_ in spec['eqs']:
            if e_[2] == 'sim':
                e_[1] = e_[1] + ' + ' + draw(st.sampled_from(['900.0', '1000.0', '700.0']))
        spec['reduction'] = draw(st.booleans())
        return spec
    spec = draw(blocks.system(n_sim=(1, 12), q_hi=80, q_lo=30, lags=(0, 3), exos=(0, 2), consts=(0, 2), aliases=(0, 0),
                              leaves=(0, 2), horizon=(1, 5), ic_prob=10, nonlinear=nonlinear, const_mag=100000,
                              tols=('1e-8', '1e-6', '1e-3', '1e-7'), user_t=(False, True), feedforward=False,
                              max_row_terms=4))
    spec['reduction'] = draw(st.booleans())
    return spec


def run_contraction(spec):
    outcome, es, ex = blocks.solve(spec, reduction=spec['reduction'])
    n_sim = len([e for e in spec['eqs'] if e[2] == 'sim'])
    labels = ['outcome:' + outcome, 'n:%d' % n_sim, 'q>=0.5' if spec['cert']['q'] >= 0.5 else 'q<0.5']
    if outcome != 'ok':
        raise Violation('C11/contraction-not-solved', 'sup-norm contraction (q=%.2f, %d variables, tol %s) ended in %s: %s' %
                        (spec['cert']['q'], n_sim, spec['tol'], outcome, ex))
    spec2 = dict(spec)
    spec2['tol_param'] = None
    c02.check_returned(spec2, es, spec['reduction'], bucket_prefix='C11/contraction')
    return {'nontrivial': spec['cert']['q'] >= 0.5 and n_sim >= 4, 'labels': labels}


# ---------------------------------------------------------------------------------------------------
RESERVED_LHS = sorted(set(keyword.kwlist) | set(dir(builtins)) | set(dir(math)) | {'k', 'self', 'None'})
GOOD_TOKENS = ('float', 'max', 'min', 'sum', 'pow', 'abs', 'round')
RESERVED_TOKENS = sorted((set(keyword.kwlist) | set(dir(builtins)) | {'self', 'None'}) - set(GOOD_TOKENS))


@st.composite
def invalid_name_case(draw):
    where = draw(st.sampled_from(['lhs', 'lhs', 'rhs', 'lhs-exo', 'lhs-lag']))
    if where == 'rhs':
        name = draw(st.sampled_from(RESERVED_TOKENS))
    else:
        name = draw(st.sampled_from(RESERVED_LHS))
    return {'where': where, 'name': name, 'reduction': draw(st.booleans()), 'via': draw(st.sampled_from(['ctor', 'parse']))}


def run_invalid_name(spec):
    from sfc_models.equation_solver import EquationSolver
    name = spec['name']
    if spec['where'] == 'lhs':
        text = 'x = 0.5*y + 1.0\n%s = 2.0\ny = 0.5*x\nMaxTime = 3\n' % name
    elif spec['where'] == 'rhs':
        text = 'x = 0.5*y + 1.0\ny = 0.5*x + %s\nMaxTime = 3\n' % name
    elif spec['where'] == 'lhs-exo':
        text = 'x = 0.5*y + 1.0\ny = 0.5*x\n# exogenous variables\n%s = [1.0]*10\nMaxTime = 3\n' % name
    else:
        text = 'x = 0.5*y + 1.0\ny = 0.5*x\n%s = x(k-1)\nMaxTime = 3\n' % name
    es = None
    try:
        if spec['via'] == 'ctor':
            es = EquationSolver(text, run_equation_reduction=spec['reduction'])
        else:
            es = EquationSolver(run_equation_reduction=spec['reduction'])
            es.ParseString(text)
        es.SolveEquation()
    except Exception as ex:
        if es is not None and any(len(s) > 1 for s in es.TimeSeries.values()):
            raise Violation('C11/invalid-name-produced-numbers', 'name %r (%s) raised %s after solving periods' %
                            (name, spec['where'], type(ex).__name__))
        return {'nontrivial': True, 'labels': ['where:' + spec['where'], 'exc:' + type(ex).__name__]}
    raise Violation('C11/invalid-name-accepted', 'reserved name %r used as %s was accepted: %r' %
                    (name, spec['where'], {k: v for k, v in list(es.TimeSeries.items())[:4]}))


# ---------------------------------------------------------------------------------------------------
INVALID_MODEL_KINDS = ['dup-country', 'dup-sector', 'dunder-local', 'dunder-code', 'no-supplier', 'ambiguous-supplier',
                       'cross-flow-no-ext', 'cross-supplier-no-ext', 'gold-no-ext', 'ext-code-taken', 'dup-market-code',
                       'second-external']


@st.composite
def invalid_model_case(draw):
    return {'kind': draw(st.sampled_from(INVALID_MODEL_KINDS)),
            'code': draw(st.sampled_from(['HH', 'GOV', 'X1', 'BUS', 'A_B'])),
            'cc': draw(st.sampled_from(['C1', 'CA', 'US', 'N'])),
            'late': draw(st.booleans())}


def run_invalid_model(spec):
    from sfc_models.objects import (Model, Country, Market, Household, ConsolidatedGovernment, FixedMarginBusiness,
                                    TaxFlow, GoldStandardGovernment)
    from sfc_models.sector import Sector
    from sfc_models.utils import LogicError
    kind = spec['kind']
    mod = Model()
    mod.MaxTime = 3
    want = LogicError
    raised = None
    stage = 'construction'
    try:
        c = Country(mod, spec['cc'])
        gov = ConsolidatedGovernment(c, 'GOV')
        hh = Household(c, 'HH')
        if kind == 'dup-country':
            if spec['late']:
                Country(mod, 'OTHER')
            Country(mod, ''.join(list(spec['cc'])))
        elif kind == 'dup-sector':
            # (an EQUAL code, not the identical string object: codes read from a file or assembled on the spot)
            Sector(c, ''.join(list(spec['code'] if spec['code'] in ('HH', 'GOV') else 'HH')))
        elif kind == 'dunder-local':
            want = ValueError
            hh.AddVariable('a__b', 'bad', '1.0')
        if kind == 'ext-code-taken':
            from sfc_models.external import ExternalSector
            Country(mod, 'EXT')
            ExternalSector(mod)
        elif kind == 'second-external':
            from sfc_models.external import ExternalSector
            ExternalSector(mod)
            ExternalSector(mod)
        elif kind == 'dup-market-code':
            Market(c, 'HH')
        bus = FixedMarginBusiness(c, 'BUS')
        tf = TaxFlow(c, 'TF', taxrate=0.2)
        lab = Market(c, 'LAB')
        goods = Market(c, 'GOOD')
        if kind == 'dunder-code':
            want = ValueError
            Sector(c, 'A__B').AddVariable('x', 'v', '1.0')
        elif kind == 'no-supplier':
            Market(c, 'OIL')
        elif kind == 'ambiguous-supplier':
            bus2 = FixedMarginBusiness(c, 'BUS2')
        elif kind in ('cross-flow-no-ext', 'cross-supplier-no-ext', 'gold-no-ext'):
            c2 = Country(mod, 'ZZ')
            gov2 = ConsolidatedGovernment(c2, 'GOV') if kind != 'gold-no-ext' else GoldStandardGovernment(c2, 'GOV')
            hh2 = Household(c2, 'HH')
            bus2 = FixedMarginBusiness(c2, 'BUS')
            TaxFlow(c2, 'TF', taxrate=0.1)
            Market(c2, 'LAB')
            g2 = Market(c2, 'GOOD')
            if kind == 'cross-flow-no-ext':
                hh.AddVariable('GIFT', 'gift', '1.0')
                mod.RegisterCashFlow(hh, hh2, 'GIFT')
            elif kind == 'cross-supplier-no-ext':
                g2.AddSupplier(bus2)
                g2.AddSupplier(bus, '0.1*' + hh2.GetVariableName('INC'))
        gov.SetExogenous('DEM_GOOD', '[20.]*20')
        stage = 'main'
        mod.main()
    except Exception as ex:
        raised = ex
    labels = ['kind:' + kind, 'stage:' + stage]
    if raised is None:
        raise Violation('C11/invalid-model-accepted', 'ill-formed model (%s) was built and solved without error' % kind)
    if not isinstance(raised, want):
        raise Violation('C11/invalid-model-wrong-exception', 'ill-formed model (%s) raised %s: %s; documented class is %s' %
                        (kind, type(raised).__name__, raised, want.__name__))
    if any(len(s) > 1 for s in mod.EquationSolver.TimeSeries.values()):
        raise Violation('C11/invalid-model-produced-numbers', 'ill-formed model (%s) produced solved periods' % kind)
    return {'nontrivial': True, 'labels': labels}


FAMILIES = [
    Family('fault', fault_case, run_fault, quick=1200, thorough=40000, case_timeout=120, timeout_bucket='C11/no-termination'),
    Family('contraction', contraction_case, run_contraction, quick=1000, thorough=40000, case_timeout=120,
           timeout_bucket='C11/no-termination'),
    Family('invalid-names', invalid_name_case, run_invalid_name, quick=1500, thorough=20000),
    Family('invalid-models', invalid_model_case, run_invalid_model, quick=300, thorough=4000),
]

MANIFEST_INFO = {
    'level_text': 'Generated-input exploration with fault injection at a generated period: outcome classification, sweep '
                  'counting through a registered probe function and the public step trace, prefix comparison with a '
                  'shorter-horizon solve; the success direction on certified contractions; reject direction on generated '
                  'invalid names and ill-formed models.',
    'design_ref': 'DESIGN.md section 3, C11',
    'level_note': 'Trusted: generator contraction certificates; the probe function as sweep counter. The universal '
                  '"contraction => solved" claim can only be refuted by sampling, mass is concentrated at the boundary.',
    'technique': 'property-based testing with scheduled fault injection (outcome/bounded-work/prefix oracles)',
}
