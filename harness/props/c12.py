"""
C12 - equation-building arithmetic preserves value.
Code under test: sfc_models.equation.Equation/Term, Sector.AddVariable/AddTermToEquation,
sfc_models.utils.create_equation_from_terms.
Oracle: rendered text parsed by the harness and evaluated exactly (Fractions) under random valuations
        == leading expression + signed sum of the added terms.
"""
from fractions import Fraction

from hypothesis import strategies as st

from harness.core import Family, Violation, Reject
from harness import expr

PROPERTY_ID = 'C12'
RULE = ('Operation lists on one Equation: a constructor form (term list / string / opaque leading expression as '
        'Sector.AddVariable creates it / Equation("lhs=rhs # c") form), then 0-10 AddTerm calls with terms '
        'name, number, a*b, a/b, n*x, in the sign/bracket spellings t,+t,-t,(t),(+t),(-t),-(-t),-(t),+(-t) with optional '
        'spaces; leading expressions drawn so that later terms are often spelled exactly like them. Second family: '
        'term lists for create_equation_from_terms whose elements may carry interior "+" (1e+5*x, (a+b), a + b). '
        'Non-trivial: the sequence contains a like-term merge or a cancellation or a term spelled like the leading '
        'expression (addterm family); the first element contains an interior "+" or list has >= 3 signed elements '
        '(termlist family). Distinct: sha1 of the op list.')
RULE = RULE + (' Input shapes added after the seeded-change rounds (DESIGN.md section 8): ' + 'every arrangement of two factors (a*b, b*a, a/b, b/a); floor division / modulo and comparisons in opaque leading expressions, with one valuation in which all variables tie.')
ASSUMPTIONS = [
    'leading expressions have additive-or-higher precedence (no comparison/conditional/lambda), as every caller builds them',
    'terms the code rejects with LogicError/SyntaxError/NotImplementedError are skipped and counted, not judged',
    'valuations avoid zero so that a/b is defined; evaluation is exact over Fractions',
]

NAMES = ['a', 'b', 'y', 'x', 'LAG_F', 'HH__F', 'T']
VAL_ENV_SIZES = 3

atom_name = st.sampled_from(NAMES)
atom_num = st.sampled_from(['2', '3', '0.5', '1.', '.25', '10', '1e2', '0.1', '7', '0.1234567', '1234.5678', '3.14159265358979',
                            '100000.5', '12345678', '1e-7', '0.000123456789'])


@st.composite
def core_term(draw):
    k = draw(st.integers(0, 9))
    if k <= 4:
        return draw(atom_name)
    if k == 5:
        return draw(atom_num)
    op = draw(st.sampled_from(['*', '/', '*']))
    sp = draw(st.sampled_from(['', '', ' ']))
    if k <= 7:
        return draw(atom_name) + sp + op + sp + draw(atom_name)
    if k == 8:
        return draw(atom_num) + sp + '*' + sp + draw(atom_name)
    return draw(atom_name) + sp + op + sp + draw(atom_num)


SIGN_FORMS = ['%s', '%s', '+%s', '-%s', '-%s', '(%s)', '(+%s)', '(-%s)', '-(-%s)', '-(%s)', '+(-%s)', '+(+%s)',
              ' + %s', ' - %s ', '- (%s)', '+ %s']


@st.composite
def signed_term(draw, pool=None):
    t = draw(core_term()) if pool is None else draw(st.one_of(st.sampled_from(pool), core_term()))
    return draw(st.sampled_from(SIGN_FORMS)) % t


@st.composite
def leading(draw):
    k = draw(st.integers(0, 11))
    if k <= 3:
        return draw(core_term())            # spelled like a term -> coincidences
    if k == 4:
        return ''
    if k == 5:
        return draw(st.sampled_from(['0.0', '0.', '0']))
    if k == 6:
        return draw(atom_name) + ' - ' + draw(atom_name)
    if k == 7:
        # opaque expressions; floor division and modulo do NOT distribute over a sign or a constant in front
        return draw(st.sampled_from(['max(a, b)', 'min(x,y)*2', 'abs(a - b)', 'max(a,b) + y', '-(a//b)', '-(a % b)',
                                     '-(x//2)', 'a//b', '-(y % 3)', '(a//b)*x',
                                     # step functions: comparisons (ties matter: the valuations below include equal values)
                                     '(y>=x)*a', '(a<=b)*x + y', '(a==b)*x', '(a!=b)*y', '(x >= y) - (a <= b)']))
    if k == 8:
        return draw(atom_name) + ' + ' + draw(core_term())
    if k == 9:
        return '-' + draw(core_term())
    if k == 10:
        return draw(atom_num) + '*' + draw(atom_name) + ' - ' + draw(core_term())
    return '(' + draw(atom_name) + ' + ' + draw(atom_name) + ')*' + draw(atom_name)


@st.composite
def addterm_case(draw):
    ctor = draw(st.sampled_from(['blob', 'blob', 'string', 'terms', 'lhs_eq', 'sector', 'lhs_eq']))
    spec = {'ctor': ctor}
    pool = []
    if ctor in ('blob', 'string', 'lhs_eq', 'sector'):
        spec['lead'] = draw(leading())
        if draw(st.sampled_from([True, False, False, False, False])):
            # a step function as leading expression (comparisons; the last valuation makes all variables tie)
            spec['lead'] = draw(st.sampled_from(['(y>=x)*a', '(a<=b)*x + y', '(a==b)*x', '(a!=b)*y', '(x >= y) - (a <= b)',
                                                 '(x<=y)', 'a*(b>=a)']))
        pool = [spec['lead']] if spec['lead'] and '+' not in spec['lead'] and '-' not in spec['lead'] and \
            '(' not in spec['lead'] else []
        if ctor == 'lhs_eq' and spec['lead'] == '':
            spec['lead'] = 'a'
    else:
        spec['init_terms'] = draw(st.lists(signed_term(), min_size=0, max_size=3))
    base_pool = draw(st.lists(core_term(), min_size=1, max_size=3))
    if draw(st.booleans()):
        # the same two factors in every arrangement: p*q and q*p are like terms, p/q and q/p are not
        p_, q_ = draw(atom_name), draw(st.one_of(atom_name, atom_num))
        base_pool += draw(st.lists(st.sampled_from([p_ + '*' + q_, q_ + '*' + p_, p_ + '/' + q_, q_ + '/' + p_,
                                                    p_ + ' / ' + q_, q_ + ' * ' + p_]), min_size=2, max_size=4))
    if draw(st.sampled_from([True, False, False, False])):
        # numeric literals that differ only by trailing zeros are different numbers (10 and 100, 20*y and 2*y)
        v_ = draw(atom_name)
        base_pool += draw(st.sampled_from([['10', '100', '1'], ['10*' + v_, '100*' + v_], ['20*' + v_, '2*' + v_, '200*' + v_],
                                           [v_ + '/20', v_ + '/2'], ['1.', '10', '1e1']]))
    from harness import gen
    spec['adds'] = draw(st.lists(signed_term(pool + base_pool), min_size=0, max_size=gen.size(10, 30)))
    spec['desc'] = draw(st.sampled_from(['', 'a description', 'uses = and # inside']))
    spec['vals'] = [{n: '%d/%d' % (draw(st.integers(1, 40)) * draw(st.sampled_from([1, -1])), draw(st.integers(1, 9)))
                     for n in NAMES} for _ in range(VAL_ENV_SIZES)]
    # one valuation in which every variable has the same value (comparisons tie)
    tie = '%d/%d' % (draw(st.integers(1, 9)), draw(st.integers(1, 4)))
    spec['vals'].append({n: tie for n in NAMES})
    return spec


def _envs(spec):
    return [{k: Fraction(v) for k, v in e.items()} for e in spec['vals']]


def _term_value(text, env):
    """Meaning of a signed term as the caller wrote it."""
    return expr.frac_eval(text, env)


def run_addterm(spec):
    from sfc_models.equation import Equation, Term
    from sfc_models.utils import LogicError
    envs = _envs(spec)
    labels = ['ctor:' + spec['ctor']]
    ctor = spec['ctor']
    accepted = []          # texts whose sum is the expected value
    lead = spec.get('lead')
    try:
        if ctor == 'blob':
            eq = Equation('v', spec['desc'], [Term(lead, is_blob=True)])
            accepted.append(lead if lead.strip() else '0')
        elif ctor == 'sector':
            from sfc_models.models import Model, Country
            from sfc_models.sector import Sector
            mod = Model()
            sec = Sector(Country(mod, 'C'), 'S')
            sec.AddVariable('v', spec['desc'], lead)
            eq = sec.EquationBlock['v']
            accepted.append(lead if lead.strip() else '0')
        elif ctor == 'string':
            eq = Equation('v', spec['desc'], lead)
            accepted.append(lead if lead.strip() else '0')
        elif ctor == 'lhs_eq':
            txt = 'v = ' + lead
            if spec['desc'] and '#' not in spec['desc']:
                txt += ' # ' + spec['desc']
            eq = Equation(txt)
            accepted.append(lead)
        else:
            eq = Equation('v', spec['desc'], [])
            for t in spec['init_terms']:
                try:
                    eq.AddTerm(t)
                    accepted.append(t)
                except (LogicError, SyntaxError, NotImplementedError):
                    labels.append('rejected-term')
    except (LogicError, SyntaxError, NotImplementedError) as ex:
        raise Reject('constructor refused: ' + type(ex).__name__)
    n_rejected = 0
    for t in spec['adds']:
        target = eq
        try:
            if ctor == 'sector':
                sec.AddTermToEquation('v', t)
            else:
                target.AddTerm(t)
            accepted.append(t)
        except (LogicError, SyntaxError, NotImplementedError):
            n_rejected += 1
    if n_rejected:
        labels.append('rejected-term')
    rhs = eq.RHS()
    if rhs != eq.GetRightHandSide():
        raise Violation('C12/rhs-alias', 'RHS() and GetRightHandSide() differ')
    s = str(eq)
    if not s.startswith('v=' + rhs):
        raise Violation('C12/str', 'str(eq)=%r does not start with lhs=rhs (%r)' % (s, rhs))
    # expected values
    try:
        exp_vals = [sum((_term_value(t, env) for t in accepted), Fraction(0)) for env in envs]
    except ZeroDivisionError:
        raise Reject('valuation divides by zero')
    except (expr.NotAffine, SyntaxError) as ex:
        raise Reject('harness cannot evaluate the expected side: %r' % (ex,))
    for env, want in zip(envs, exp_vals):
        try:
            got = expr.frac_eval(rhs, env)
        except ZeroDivisionError:
            raise Reject('valuation divides by zero (rendered side)')
        except Exception as ex:
            raise Violation('C12/not-an-expression', 'rendered %r is not a valid expression (%s: %s); ops=%r' %
                            (rhs, type(ex).__name__, ex, accepted))
        if got != want:
            bucket = 'C12/value'
            if ctor in ('blob', 'sector', 'string', 'lhs_eq'):
                bucket = 'C12/value-after-leading'
            raise Violation(bucket, 'terms %r render as %r: value %s, expected %s under %r' %
                            (accepted, rhs, got, want, {k: str(v) for k, v in env.items()}))
    # empty / cancelled sum renders a zero literal
    if all(v == 0 for v in exp_vals) and len(accepted) > 0:
        labels.append('sum-identically-zero?')
    # classification
    def norm(t):
        t = t.replace(' ', '')
        while t and t[0] in '+-(':
            t = t[1:]
        return t.rstrip(')')
    cores = [norm(t) for t in accepted]
    merge = len(set(cores)) < len(cores)
    lead_coincide = lead is not None and norm(lead) in cores[1:] and ctor in ('blob', 'sector')
    if merge:
        labels.append('like-term-merge')
    if lead_coincide:
        labels.append('term-spelled-like-leading')
    cancel = False
    for i, c in enumerate(cores):
        for j in range(i):
            if cores[j] == c:
                try:
                    if _term_value(accepted[i], envs[0]) == -_term_value(accepted[j], envs[0]):
                        cancel = True
                except Exception:
                    pass
    if cancel:
        labels.append('cancellation')
    return {'nontrivial': (merge or cancel or lead_coincide) and len(accepted) >= 2, 'labels': labels}


# ---------------------------------------------------------------------------------------------
TERMLIST_ELEMENTS = ['a', 'b', 'x*y', '2*x', 'a/b', '(a+b)', '1e+5*x', 'a + b', '(a + b)*x', 'max(a,b)', 'T',
                     'TF__TaxRate * HH__INC', 'abs(+a)', '1E+2', 'x*(y+1)', '+a', '(-a)']


@st.composite
def termlist_case(draw):
    n = draw(st.integers(1, 6))
    terms = []
    for _ in range(n):
        t = draw(st.sampled_from(TERMLIST_ELEMENTS))
        sign = draw(st.sampled_from(['', '', '+', '-', '+ ', '- ', ' +', ' -']))
        if t[0] in '+-' and sign.strip():
            sign = ''
        terms.append(sign + t + draw(st.sampled_from(['', ' '])))
    container = draw(st.sampled_from(['list', 'list', 'tuple']))
    names = ['a', 'b', 'x', 'y', 'T', 'TF__TaxRate', 'HH__INC']
    vals = [{nm: '%d/%d' % (draw(st.integers(1, 40)) * draw(st.sampled_from([1, -1])), draw(st.integers(1, 9)))
             for nm in names} for _ in range(2)]
    return {'terms': terms, 'container': container, 'vals': vals}


def run_termlist(spec):
    from sfc_models.utils import create_equation_from_terms
    terms = list(spec['terms'])
    before = list(terms)
    if spec['container'] == 'tuple':
        # callers pass lists; a tuple shows whether the function needs to write into its argument at all
        arg = list(terms)
    else:
        arg = terms
    out = create_equation_from_terms(arg)
    labels = []
    for e in spec['vals']:
        env = {k: Fraction(v) for k, v in e.items()}
        try:
            want = sum((expr.frac_eval(t, env) for t in before), Fraction(0))
        except ZeroDivisionError:
            raise Reject('valuation divides by zero')
        try:
            got = expr.frac_eval(out, env)
        except ZeroDivisionError:
            raise Reject('valuation divides by zero')
        except Exception as ex:
            raise Violation('C12/termlist-not-an-expression', 'terms %r joined as %r: %s: %s' %
                            (before, out, type(ex).__name__, ex))
        if got != want:
            raise Violation('C12/termlist-value', 'terms %r joined as %r: value %s, expected %s' % (before, out, got, want))
    if arg != before:
        raise Violation('C12/termlist-mutates-argument',
                        'create_equation_from_terms changed its argument from %r to %r' % (before, arg))
    first_plus = '+' in before[0].strip()[1:]
    if first_plus:
        labels.append('first-has-interior-plus')
    return {'nontrivial': first_plus or len(before) >= 3, 'labels': labels}


# ---------------------------------------------------------------------------------------------
@st.composite
def termobj_case(draw):
    """AddTerm documents 'may be a string or Term object': histories in which Term objects are reused."""
    pool = draw(st.lists(signed_term(), min_size=1, max_size=4))
    ops = []
    for _ in range(draw(st.integers(2, 10))):
        eqi = draw(st.sampled_from([0, 0, 1]))
        if draw(st.sampled_from([True, True, False])):
            ops.append([eqi, 'obj', draw(st.integers(0, len(pool) - 1))])
        else:
            ops.append([eqi, 'str', draw(signed_term(None))])
    ctor_objs = draw(st.lists(st.integers(0, len(pool) - 1), min_size=0, max_size=2))
    vals = [{n: '%d/%d' % (draw(st.integers(1, 40)) * draw(st.sampled_from([1, -1])), draw(st.integers(1, 9)))
             for n in NAMES} for _ in range(2)]
    return {'pool': pool, 'ops': ops, 'ctor_objs': ctor_objs, 'vals': vals}


def run_termobj(spec):
    from sfc_models.equation import Equation, Term
    from sfc_models.utils import LogicError
    envs = _envs(spec)
    objs = []
    texts = []
    for t in spec['pool']:
        try:
            objs.append(Term(t))
            texts.append(t)
        except (LogicError, SyntaxError, NotImplementedError):
            objs.append(None)
            texts.append(None)
    if all(o is None for o in objs):
        raise Reject('no valid term object')
    snapshot = [(o.Constant, o.Term) if o is not None else None for o in objs]
    accepted = [[], []]
    first = [objs[i] for i in spec['ctor_objs'] if objs[i] is not None]
    eqs = [Equation('v0', '', list(first)), Equation('v1', '', [])]
    accepted[0] += [texts[i] for i in spec['ctor_objs'] if objs[i] is not None]
    reused = False
    used = set(i for i in spec['ctor_objs'] if objs[i] is not None)
    for i, (eqi, kind, arg) in enumerate(spec['ops']):
        if kind == 'obj':
            if objs[arg] is None:
                continue
            if arg in used:
                reused = True
            used.add(arg)
            eqs[eqi].AddTerm(objs[arg])
            accepted[eqi].append(texts[arg])
        else:
            try:
                eqs[eqi].AddTerm(arg)
                accepted[eqi].append(arg)
            except (LogicError, SyntaxError, NotImplementedError):
                continue
        # invariant after every step, for both equations
        for j in (0, 1):
            rhs = eqs[j].RHS()
            for env in envs:
                try:
                    want = sum((_term_value(t, env) for t in accepted[j]), Fraction(0))
                    got = expr.frac_eval(rhs, env)
                except ZeroDivisionError:
                    raise Reject('valuation divides by zero')
                except Exception as ex:
                    raise Violation('C12/not-an-expression', 'rendered %r: %s' % (rhs, ex))
                if got != want:
                    raise Violation('C12/term-object-reuse', 'after ops %r with Term objects %r: equation %d renders %r '
                                    '(value %s), the terms added to it are %r (value %s)' %
                                    (spec['ops'][:i + 1], spec['pool'], j, rhs, got, accepted[j], want))
    # (Whether the caller's Term objects themselves stay untouched is not part of the property; only values are judged.)
    return {'nontrivial': reused, 'labels': ['object-reused'] if reused else []}


FAMILIES = [
    Family('addterm', addterm_case, run_addterm, quick=4000, thorough=200000),
    Family('term-objects', termobj_case, run_termobj, quick=2500, thorough=100000),
    Family('termlist', termlist_case, run_termlist, quick=3000, thorough=100000),
]

MANIFEST_INFO = {
    'level_text': 'Generated-input exploration over call histories (constructor form, then AddTerm sequences) and term '
                  'lists; each rendered right-hand side is parsed by the harness and compared exactly, as a rational '
                  'number under several valuations, with the signed sum of what was added.',
    'design_ref': 'DESIGN.md section 3, C12',
    'level_note': 'Trusted: harness expression evaluator (ast + Fractions). Leading expressions are of additive or higher '
                  'precedence; rejected terms are counted, not judged.',
    'technique': 'property-based testing (operation-list generation, exact-evaluation oracle against a reference sum)',
}
