"""
C13 - name substitution is hygienic and simultaneous.
Code under test: sfc_models.utils.list_tokens / replace_token / replace_token_from_lookup.
Oracle: the harness's own lexer (harness.expr.lex) + evaluation under renamed environments.
"""
import keyword
import math

from hypothesis import strategies as st

from harness.core import Family, Violation, Reject
from harness import expr, gen

PROPERTY_ID = 'C13'
RULE = ('Expression text drawn from a grammar (arithmetic incl. ** // %, calls with string arguments, the three lag '
        'spellings, list literals and subscripts, comparisons, every numeric literal form) over a name pool whose '
        'members are prefixes/suffixes of each other and of number tails; renaming maps with 1-5 entries drawn from '
        'the same pool plus fresh names (overlapping, chained a->b,b->c, swaps, self-maps, absent keys). '
        'Non-trivial: the expression holds a name that is a proper prefix or suffix of another name, number or '
        'string in it, and the map changes at least 2 distinct names that occur in the expression. '
        'Distinct: sha1 of (expression, map).')
RULE = RULE + (' Input shapes added after the seeded-change rounds (DESIGN.md section 8): ' + 'names float() would read as numbers (inf, nan), non-ASCII identifiers, one-atom expressions, Term objects shared by two equations of a block, the same equation renamed twice.')
ASSUMPTIONS = [
    'expressions are ASCII, single-line, syntactically valid Python expressions without f-strings/attribute access',
    'value oracle uses Python eval semantics; equality by repr (same operation tree on the same values)',
]

FRESH = ['q', 'q1', 'zz', 'x2', 'HH__G', 'CA_HH__F', 'renamed_x', 'e6', 'k1', 'xx1', 'w_0']

CLUSTERS = [['x', 'x1', 'xx', 'x_1', 'x_000', 'x0', 'xF', 'xE', 'X', 'LAG_x'],
            ['e5', 'e', 'E', 'e_5', 'E3', 'xE', 'j', 'J', 'l', 'O'],
            ['a', 'b', 'ab', 'a_b', 'ba', 'b1', 'b101', 'o17'],
            ['HH__F', 'HH__F1', 'H__F', 'F', 'xF', '_12__F', '_1__F', '_12__F1'],
            ['y', 'yy', 'LAG_y', 'k', 't'],
            ['inf', 'nan', 'infinity', 'Infinity', 'NaN', 'INF', 'e5', 'j'],     # names float() would read as numbers
            ['\u03b1', '\u03b11', '\u03b1\u03b2', '\u03b8', '\u0394', '\u03b2', '\u00e9pargne', 'x']]   # Greek / accented identifiers

FUNC_TABLE = {'max': max, 'min': min, 'abs': abs, 'sqrt': math.sqrt, 'exp': math.exp, 'log': math.log,
              'pow': pow, 'float': float}


@st.composite
def case(draw):
    cl = [CLUSTERS[i] for i in draw(st.lists(st.integers(0, len(CLUSTERS) - 1), min_size=1, max_size=2, unique=True))]
    pool = []
    for c in cl:
        for n in draw(st.lists(st.sampled_from(c), min_size=2, max_size=4, unique=True)):
            if n not in pool:
                pool.append(n)
    e = draw(gen.expression(pool, max_leaves=10, imag=True))
    if draw(gen.chance(1, 8)):
        # the whole expression is one (signed, blank-padded) name or number
        e = draw(st.sampled_from(['%s', '-%s', ' %s ', '+%s', '(%s)', '%s '])) % draw(st.sampled_from(pool + ['1e5', '0x1F']))
    # A map: keys mostly names that occur in the expression (read with the harness lexer), sometimes absent names or
    # function names
    try:
        present = list(dict.fromkeys(t for k_, t in expr.lex(e) if k_ == 'name' and t not in gen.FUNCS))
    except expr.LexError:
        present = []
    present = present or list(pool)
    order = present + [n for n in pool if n not in present]
    key_st = st.one_of(st.sampled_from(present), st.sampled_from(present), st.sampled_from(pool),
                       st.sampled_from(gen.NAME_POOL), st.sampled_from(gen.FUNCS))
    val_st = st.one_of(st.sampled_from(pool), st.sampled_from(FRESH), st.sampled_from(gen.NAME_POOL))
    shape = draw(st.integers(0, 5))
    if shape == 0 and len(order) >= 2:       # swap
        a, b = order[0], order[1]
        lookup = {a: b, b: a}
    elif shape == 1 and len(order) >= 3:     # chain / rotation
        lookup = {order[0]: order[1], order[1]: order[2]}
        if draw(st.booleans()):
            lookup[order[2]] = order[0]
    else:
        lookup = draw(st.dictionaries(key_st, val_st, min_size=2, max_size=5))
    val_st2 = st.one_of(st.integers(-9, 9).map(float), st.floats(-100, 100, allow_nan=False).map(lambda v: round(v, 3)))
    vals = {n: draw(val_st2) for n in pool}
    return {'expr': e, 'lookup': lookup, 'vals': vals}


def _eval(text, env):
    g = {'__builtins__': {}}
    try:
        return ('ok', repr(eval(compile(text.strip(), '<e>', 'eval'), g, env)))
    except Exception as ex:  # the *type* of the exception is the observable
        return ('exc', type(ex).__name__)


def run(spec):
    import warnings
    warnings.simplefilter('ignore')
    from sfc_models import utils
    e = spec['expr']
    lookup = spec['lookup']
    try:
        in_toks = expr.lex(e)
    except expr.LexError as ex:
        raise Reject('harness lexer refuses generated text')
    in_names = [t for k, t in in_toks if k == 'name']
    # (1) list_tokens
    got = utils.list_tokens(e)
    if got != in_names:
        raise Violation('C13/list-tokens', 'list_tokens(%r) = %r, name tokens are %r' % (e, got, in_names))
    # (2) lookup replacement, (3) single replacement
    outputs = [('lookup', dict(lookup), utils.replace_token_from_lookup(e, lookup))]
    k0 = sorted(lookup)[0]
    outputs.append(('single', {k0: lookup[k0]}, utils.replace_token(e, k0, lookup[k0])))
    changed_names = set()
    for kind, mp, out in outputs:
        try:
            out_toks = expr.lex(out)
        except expr.LexError:
            raise Violation('C13/' + kind + '-unlexable', 'output %r of %r under %r cannot be lexed' % (out, e, mp))
        if len(out_toks) != len(in_toks):
            raise Violation('C13/' + kind + '-token-count',
                            '%r -> %r under %r: %d tokens became %d' % (e, out, mp, len(in_toks), len(out_toks)))
        for (k1, t1), (k2, t2) in zip(in_toks, out_toks):
            if k1 == 'name':
                want = mp.get(t1, t1)
                if k2 != 'name' or t2 != want:
                    raise Violation('C13/' + kind + '-wrong-name',
                                    '%r -> %r under %r: name %r became %r, expected %r' % (e, out, mp, t1, t2, want))
                if kind == 'lookup' and want != t1:
                    changed_names.add(t1)
            elif (k1, t1) != (k2, t2):
                raise Violation('C13/' + kind + '-nonname-changed',
                                '%r -> %r under %r: token %r became %r' % (e, out, mp, t1, t2))
        # value preservation when the map merges no two distinct names of the expression
        distinct = sorted(set(in_names))
        images = [mp.get(n, n) for n in distinct]
        if len(set(images)) == len(images):
            env = {}
            for n in distinct:
                if keyword.iskeyword(n):
                    continue
                if n in FUNC_TABLE:
                    env[n] = FUNC_TABLE[n]
                else:
                    env[n] = spec['vals'].get(n, 1.25)
            env2 = {mp.get(n, n): v for n, v in env.items()}
            a = _eval(e, env)
            b = _eval(out, env2)
            if a != b:
                raise Violation('C13/' + kind + '-value',
                                '%r evaluates to %r, renamed %r (map %r) to %r' % (e, a, out, mp, b))
    # non-triviality
    texts = [t for k, t in in_toks]
    prefixy = False
    for n in set(in_names):
        for t in texts:
            if t != n and len(t) > len(n) and (t.startswith(n) or t.endswith(n) or n in t):
                prefixy = True
    labels = []
    if prefixy:
        labels.append('has-prefix/suffix-name')
    if len(changed_names) >= 2:
        labels.append('map-changes>=2')
    if any(k == 'string' for k, t in in_toks):
        labels.append('has-string')
    if any(k == 'number' and any(c.isalpha() for c in t) for k, t in in_toks):
        labels.append('alpha-in-number')
    if set(lookup.keys()) & set(lookup.values()):
        labels.append('chained-or-swap')
    return {'nontrivial': prefixy and len(changed_names) >= 2, 'labels': labels}


# ------------------------------------------------------------------------------------------------
# The callers named in the property's anchors: Equation / EquationBlock .ReplaceTokensFromLookup (alias fixing and
# local->full qualification go through them, term by term).
@st.composite
def equation_case(draw):
    ci = draw(st.integers(0, len(CLUSTERS) - 1))
    pool = draw(st.lists(st.sampled_from(CLUSTERS[ci]), min_size=2, max_size=4, unique=True))
    lead = draw(st.one_of(st.none(), gen.expression(pool, max_leaves=4, comparisons=False, strings=False, lists=False,
                                                    lags=False, ops=('+', '-', '*'))))
    term_st = st.one_of(st.sampled_from(pool),
                        st.tuples(st.sampled_from(pool), st.sampled_from(['*', '/']), st.sampled_from(pool)).map(''.join),
                        st.tuples(st.sampled_from(['2', '0.5', '3.', '1.e5', '2.E3', '1.e0', '4.e', '1.5e5', '0x1F', '1_000',
                                                   '2.j']).filter(lambda t: t != '4.e'),
                                  st.just('*'), st.sampled_from(pool)).map(''.join))
    terms = draw(st.lists(st.tuples(st.sampled_from(['+', '-', '']), term_st).map(''.join), min_size=1, max_size=5))
    shape = draw(st.integers(0, 3))
    if shape == 0:
        lookup = {pool[0]: pool[1], pool[1]: pool[0]}
    elif shape == 1 and len(pool) >= 3:
        lookup = {pool[0]: pool[1], pool[1]: pool[2], pool[2]: pool[0]}
    else:
        lookup = draw(st.dictionaries(st.sampled_from(pool), st.sampled_from(FRESH + pool), min_size=1, max_size=4))
    vals = {n: draw(st.integers(1, 40)) / 4.0 for n in pool}
    # optionally the SAME equation object is renamed a second time (local names -> aliases -> final names): the keys of
    # the second map are names the first one introduced
    second = None
    if draw(st.sampled_from([True, False, False])):
        imgs = sorted(set(lookup.values()))
        second = {n: 'final_' + n for n in imgs if draw(st.sampled_from([True, True, False]))}
    return {'lead': lead, 'terms': terms, 'lookup': lookup, 'vals': vals, 'second': second,
            'via': draw(st.sampled_from(['equation', 'block', 'block-shared']))}


def run_equation(spec):
    from sfc_models.equation import Equation, Term, EquationBlock
    from sfc_models.utils import LogicError
    lookup = spec['lookup']
    try:
        if spec['lead'] is not None:
            eq = Equation('v', 'd', [Term(spec['lead'], is_blob=True)])
        else:
            eq = Equation('v', 'd', [])
        for t in spec['terms']:
            eq.AddTerm(t)
    except (LogicError, SyntaxError, NotImplementedError):
        raise Reject('term refused')
    if spec['via'] == 'block-shared':
        # the same Term OBJECTS are handed to two equations of one block (a ratio used in two places): every equation is
        # renamed exactly once, whoever else holds the objects
        try:
            objs = [Term(t) for t in spec['terms']]
            eq = Equation('v', 'd', [])
            twin = Equation('w', 'd', [])
            for o in objs:
                eq.AddTerm(o)
            for o in objs:
                twin.AddTerm(o)
        except (LogicError, SyntaxError, NotImplementedError):
            raise Reject('term refused')
        before, before2 = eq.RHS(), twin.RHS()
        blk = EquationBlock()
        blk.AddEquation(eq)
        blk.AddEquation(twin)
        blk.ReplaceTokensFromLookup(lookup)
        for b_, a_ in ((before2, twin.RHS()),):
            want2 = [lookup.get(n, n) for n in expr.names(b_)]
            if expr.names(a_) != want2:
                raise Violation('C13/equation-level-rename', 'second equation %r (sharing Term objects with the first) under %r '
                                                             'became %r: expected names %r' % (b_, lookup, a_, want2))
        after = eq.RHS()
        names_before = expr.names(before)
        want_names = [lookup.get(n, n) for n in names_before]
        if expr.names(after) != want_names:
            raise Violation('C13/equation-level-rename', 'equation %r (sharing Term objects with another) under %r became %r: '
                                                         'expected names %r' % (before, lookup, after, want_names))
        changed = len(set(n for n in names_before if lookup.get(n, n) != n))
        return {'nontrivial': changed >= 2, 'labels': ['via:block-shared']}
    before = eq.RHS()
    if spec['via'] == 'block':
        blk = EquationBlock()
        blk.AddEquation(eq)
        blk.ReplaceTokensFromLookup(lookup)
    else:
        eq.ReplaceTokensFromLookup(lookup)
    after = eq.RHS()
    names_before = expr.names(before)
    want_names = [lookup.get(n, n) for n in names_before]
    got_names = expr.names(after)
    if got_names != want_names:
        raise Violation('C13/equation-level-rename', 'equation %r under %r became %r: names %r, expected %r' %
                        (before, lookup, after, got_names, want_names))
    if spec.get('second'):
        mid = eq.RHS()
        if spec['via'] == 'block':
            blk.ReplaceTokensFromLookup(spec['second'])
        else:
            eq.ReplaceTokensFromLookup(spec['second'])
        got2 = expr.names(eq.RHS())
        want2 = [spec['second'].get(n, n) for n in expr.names(mid)]
        if got2 != want2:
            raise Violation('C13/equation-level-rename', 'equation %r, renamed once before, under the second map %r became %r: '
                                                         'expected names %r' % (mid, spec['second'], eq.RHS(), want2))
        return {'nontrivial': len(set(expr.names(mid)) & set(spec['second'])) >= 1, 'labels': ['via:' + spec['via'], 'renamed-twice']}
    distinct = sorted(set(names_before))
    images = [lookup.get(n, n) for n in distinct]
    if len(set(images)) == len(images):
        env = {n: spec['vals'].get(n, 1.5) for n in distinct}
        env2 = {lookup.get(n, n): v for n, v in env.items()}
        a = _eval(before, env)
        b = _eval(after, env2)
        if a != b:
            raise Violation('C13/equation-level-value', 'equation %r evaluates to %r, renamed %r (map %r) to %r' %
                            (before, a, after, lookup, b))
    changed = len(set(n for n in names_before if lookup.get(n, n) != n))
    product = any(('*' in t or '/' in t) for t in spec['terms'])
    return {'nontrivial': changed >= 2 and product, 'labels': ['via:' + spec['via']]}


FAMILIES = [
    Family('rename', case, run, quick=6000, thorough=400000),
    Family('equation-level', equation_case, run_equation, quick=3000, thorough=100000),
]

MANIFEST_INFO = {
    'level_text': 'Generated-input exploration: thousands of grammar-drawn expressions x renaming maps checked token by '
                  'token against an independent lexer and by evaluation under the renamed environment. Refutes, never '
                  'proves; the right level because the property quantifies over all expressions and maps.',
    'design_ref': 'DESIGN.md section 3, C13',
    'level_note': 'Trusted: the harness lexer (harness/expr.py) and Python eval as the meaning of an expression. '
                  'ASCII single-line expressions without f-strings or attribute access.',
    'technique': 'property-based testing (Hypothesis grammar strategy; independent-lexer and metamorphic evaluation oracle)',
}
