"""
C14 - equation text is classified faithfully; comments are inert.
Code under test: EquationParser.ParseString (block level); Model.main() under description changes (model level, see
family model-descriptions).
Oracle: the BlockSpec is the ground truth for the parser's lists; metamorphic twin without comments.
"""
from hypothesis import strategies as st

from harness.core import Family, Violation, Reject
from harness import blocks, gen

PROPERTY_ID = 'C14'
RULE = ('BlockSpecs rendered as text with: shuffled line order inside each section, MaxTime/Err_Tolerance lines anywhere, '
        'spacing variants around "=", the three lag spellings, initial conditions, with/without a user-defined t, seven '
        'spellings of the section-marker line, trailing comments and pure comment lines drawn from adversarial text '
        '("=", "#", digits, "(0)", "(k-1)", the word exogenous in any case - the latter only in TRAILING comments, since a '
        'pure comment line with the word is a marker by documented usage; one third of the comments are 2-3 phrases joined '
        'by blanks or further "#" characters), malformed lines (no "=", several "="). '
        'Oracle: parser lists equal the spec in order; every malformed line is named in the returned message; t = k '
        'added iff the user gave none; the same block without comments parses to identical lists. Non-trivial: a trailing '
        'comment containing the marker word on a line before the marker, or a malformed line, or a comment with "=" . '
        'Distinct: sha1 of the spec.')
RULE = RULE + (' Input shapes added after the seeded-change rounds (DESIGN.md section 8): ' + "compound comments with several '#', names starting with '_' or ending in 0, a parser object that has read another block before, descriptions with braces while logging is registered.")
ASSUMPTIONS = [
    'variable names never contain the marker word (quantifier)',
    'right-hand sides are compared after removing blanks; the (t-1)->(k-1) normalisation is applied to the expectation',
    'arithmetic on the time index such as 2.0*(k-1) is a well-formed simultaneous line, not a lag (a lag is NAME(k-1))',
]

MARKERS = ['# Exogenous Variables', 'exogenous', 'Exogenous', '   exogenous   ', '# EXOGENOUS', 'EXOGENOUS VARIABLES',
           'Exogenous = section']
COMMENT_WORDS = ['an exogenous shock', 'Exogenous', 'EXOGENOUS!', 'a=b', 'x = 5', 'see eq. #3', '# nested', '(0)',
                 'x(k-1)', 'LAG(t-1)', '100%', 'MaxTime = 7', 'Err_Tolerance=1', "it's", 'rate 0.025', 't = k',
                 'pre-exogenous era', 'note', '[1] Household', 'Demand for goods (GOOD)']
SAFE_COMMENTS = [c for c in COMMENT_WORDS if 'exogenous' not in c.lower()]
PRE_TEXTS = ['t = k + 2000.\ny = 2.0*t\nMaxTime = 9', 'x = 1.0\n# Exogenous\nG = [1., 2.]\nMaxTime = 7\nErr_Tolerance = 0.5',
             'a = b\nb(0) = 3.\nzz = a(k-1)\nt = 3*k', 'q9 = 1\nexogenous\nt = [5., 6.]']
COMMENT_JOINS = [' # ', ' ', '#', '; ', ' ## ']


@st.composite
def comment_text(draw, words, none_weight=1):
    """None, one phrase, or 2-3 phrases joined by blanks / further '#' characters (so that the marker word can sit
    before, between or after several '#' on one line)."""
    if none_weight and draw(st.sampled_from([True] * none_weight + [False] * 4)):
        return None
    first = draw(st.sampled_from(words))
    from harness import gen
    if not draw(gen.chance(1, 3)):
        return first
    parts = [first] + [draw(st.sampled_from(words)) for _ in range(draw(st.sampled_from([1, 1, 2])))]
    out = parts[0]
    for p_ in parts[1:]:
        out += draw(st.sampled_from(COMMENT_JOINS)) + p_
    return out


MALFORMED = ['Cat!', 'just words', 'x == 3', 'a = b = c', '42', 'y + 1', 'z = 1 = 2']


@st.composite
def case(draw):
    spec = draw(blocks.system(n_sim=(1, 5), q_hi=70, lags=(0, 3), exos=(0, 3), consts=(0, 2), aliases=(0, 2),
                              leaves=(0, 2), horizon=(1, 5), ic_prob=25, tols=('1e-6', '1e-4', None),
                              user_t=(False, True)))
    for i in range(draw(st.sampled_from([0, 0, 1, 2]))):
        spec['eqs'].append(['tk%d' % i, draw(st.sampled_from(['2.0*(k-1)', '0.5*(t-1) + 1.0', '(k-1)*0.1', '1.02**(k-1)',
                                                              'max(0.0, (t-1))', '(k-1)'])), 'leaf'])
    spec['layout']['perm'] = None
    n_endo_lines = len(spec['eqs']) + len(spec['lags']) + len(spec['ics'])
    spec['layout']['perm'] = draw(st.permutations(list(range(n_endo_lines))))
    spec['marker'] = draw(st.sampled_from(MARKERS))
    spec['endo_comments'] = [draw(comment_text(COMMENT_WORDS, 2)) for _ in range(n_endo_lines)]
    spec['exo_comments'] = [draw(comment_text(COMMENT_WORDS, 1)) for _ in spec['exo']]
    spec['pure'] = [[draw(st.integers(0, n_endo_lines)), draw(comment_text(SAFE_COMMENTS, 0))]
                    for _ in range(draw(st.integers(0, 2)))]
    spec['malformed'] = [[draw(st.integers(0, n_endo_lines)), draw(st.sampled_from(MALFORMED))]
                         for _ in range(draw(st.sampled_from([0, 0, 0, 1, 2])))]
    spec['params_pos'] = draw(st.sampled_from(['top', 'middle', 'bottom', 'after-exo']))
    spec['bad_param'] = draw(st.sampled_from([None] * 12 + ['MaxTime = ten', 'MaxTime = 3.5', 'Err_Tolerance = tight',
                                                            'MaxTime = ', 'Err_Tolerance = 1e-6x']))
    spec['comment_sp'] = draw(st.sampled_from(['  # ', '#', ' #', '\t# ']))
    spec['pre_text'] = draw(st.sampled_from([None, None, None] + PRE_TEXTS))
    spec['blank_lines'] = draw(st.booleans())
    spec['indent'] = draw(st.sampled_from(['', '   ', '\t']))
    return spec


def render(spec, with_comments=True):
    eqsp = spec['layout']['eqsp']
    endo = []
    for name, rhs, kind in spec['eqs']:
        endo.append(name + eqsp + rhs)
    for lagn, src, spell in spec['lags']:
        endo.append(lagn + eqsp + src + spell)
    for name, text in spec['ics']:
        endo.append(name + '(0)' + eqsp + text)
    perm = spec['layout']['perm']
    order = perm if perm is not None and len(perm) == len(endo) else list(range(len(endo)))
    endo = [endo[i] for i in order]
    if with_comments:
        endo = [l + (spec['comment_sp'] + c if c is not None else '') for l, c in zip(endo, spec['endo_comments'])]
    # insert pure comment lines and malformed lines (positions refer to the endogenous section)
    inserts = []
    if with_comments:
        inserts += [(pos, '# ' + txt) for pos, txt in spec['pure']]
    inserts += [(pos, txt) for pos, txt in spec['malformed']]
    for pos, txt in sorted(inserts, key=lambda x: -x[0]):
        endo.insert(min(pos, len(endo)), txt)
    params = ['MaxTime' + eqsp + str(spec['maxtime'])]
    if spec['tol'] is not None:
        params.append('Err_Tolerance' + eqsp + spec['tol'])
    exo = [name + eqsp + text for name, text, form, values in spec['exo']]
    if with_comments:
        exo = [l + (spec['comment_sp'] + c if c is not None else '') for l, c in zip(exo, spec['exo_comments'])]
    pp = spec['params_pos']
    lines = []
    if pp == 'top':
        lines += params
    if pp == 'middle':
        half = len(endo) // 2
        lines += endo[:half] + params + endo[half:]
    else:
        lines += endo
    if pp == 'bottom':
        lines += params
    lines.append(spec['marker'])
    lines += exo
    if pp == 'after-exo':
        lines += params
    sep = '\n\n' if spec['blank_lines'] else '\n'
    return sep.join(spec['indent'] + l for l in lines) + '\n'


def expected(spec):
    perm = spec['layout']['perm']
    items = [('eq', e) for e in spec['eqs']] + [('lag', l) for l in spec['lags']] + [('ic', i) for i in spec['ics']]
    order = perm if perm is not None and len(perm) == len(items) else list(range(len(items)))
    items = [items[i] for i in order]
    endo, lagged, ics = [], [], {}
    for kind, it in items:
        if kind == 'eq':
            endo.append((it[0], it[1].replace(' ', '')))
        elif kind == 'lag':
            lagged.append((it[0], it[1]))
        else:
            ics[it[0]] = it[1]
    if not any(e[2] == 't' for e in spec['eqs']):
        endo.append(('t', 'k'))
    exo = [(e[0], e[1].replace(' ', '')) for e in spec['exo']]
    return endo, lagged, exo, ics


def snapshot(parser):
    return ([(a, b.replace(' ', '')) for a, b in parser.Endogenous], [(a, b.strip()) for a, b in parser.Lagged],
            [(a, b.replace(' ', '')) for a, b in parser.Exogenous], dict(parser.InitialConditions), parser.MaxTime,
            parser.Err_Tolerance)


def run(spec):
    from sfc_models.equation_parser import EquationParser
    text = render(spec)
    p = EquationParser()
    if spec.get('bad_param') is not None:
        # a run-parameter line whose value cannot be read: must be reported (exception or message)
        bad_text = spec['bad_param'] + '\n' + text
        try:
            msg = EquationParser().ParseString(bad_text)
        except Exception:
            return {'nontrivial': True, 'labels': ['bad-run-parameter:raised']}
        if spec['bad_param'].split('=')[0].strip() not in msg:
            raise Violation('C14/bad-run-parameter-silent', 'line %r was accepted without any report (message %r)' %
                            (spec['bad_param'], msg))
        return {'nontrivial': True, 'labels': ['bad-run-parameter:message']}
    if spec.get('pre_text') is not None:
        # the parser object has read another block before (with its own time axis, lags, exogenous section, run
        # parameters): a block is classified the same way whatever was parsed earlier
        try:
            p.ParseString(spec['pre_text'])
        except Exception:
            pass
    try:
        msg = p.ParseString(text)
    except Exception as ex:
        raise Violation('C14/parse-raises', 'well-formed block raised %s: %s\n%s' % (type(ex).__name__, ex, text))
    endo, lagged, exo, ics = expected(spec)
    got = snapshot(p)
    tol = spec['tol'] if spec['tol'] is not None else '1e-8'
    names = ['Endogenous', 'Lagged', 'Exogenous', 'InitialConditions', 'MaxTime', 'Err_Tolerance']
    want = (endo, lagged, exo, ics, spec['maxtime'], tol)
    word_in_comment = any(c is not None and 'exogenous' in c.lower() for c in spec['endo_comments'] + spec['exo_comments'])
    for nm, g, w in zip(names, got, want):
        if g != w:
            tk = any(e[0].startswith('tk') for e in spec['eqs'])
            raise Violation('C14/time-index-arithmetic-read-as-lag' if tk else
                            ('C14/marker-word-in-comment' if word_in_comment else 'C14/' + nm.lower()), 'parser.%s = %r, the block says %r\n--- text ---\n%s' % (nm, g, w, text))
    for pos, txt in spec['malformed']:
        if txt.split('=')[0] not in msg and txt not in msg:
            raise Violation('C14/malformed-silent', 'malformed line %r is not reported in %r' % (txt, msg))
    # metamorphic twin: comments removed
    p2 = EquationParser()
    p2.ParseString(render(spec, with_comments=False))
    if snapshot(p2) != got:
        raise Violation('C14/comments-not-inert', 'removing the comments changes the parsed lists')
    labels = ['marker:' + spec['marker'].strip()]
    marker_word_before = any(c is not None and 'exogenous' in c.lower() for c in spec['endo_comments'])
    if marker_word_before:
        labels.append('marker-word-in-trailing-comment-before-marker')
    if any(c is not None and 'exogenous' in c.lower() for c in spec['exo_comments']):
        labels.append('marker-word-in-comment-after-marker')
    if spec['malformed']:
        labels.append('malformed-line')
    eq_in_comment = any(c is not None and '=' in c for c in spec['endo_comments'] + spec['exo_comments'])
    if eq_in_comment:
        labels.append('equals-in-comment')
    if any(c is not None and 'exogenous' in c.lower().split('#')[0] and '#' in c
           for c in spec['endo_comments'] + spec['exo_comments']):
        labels.append('hash-after-marker-word-in-comment')
    if any(e[0].startswith('tk') for e in spec['eqs']):
        labels.append('time-index-arithmetic')
    return {'nontrivial': marker_word_before or bool(spec['malformed']) or eq_in_comment, 'labels': labels}


# ---------------------------------------------------------------------------------------------- model level
DESC_TEXTS = COMMENT_WORDS + ['Exogenous Variables', 'exogenous = [1, 2]', '# Exogenous Variables', 'EXOGENOUS', 'x=y # z',
                              'MaxTime = 0', 'k', 'F(k-1)', 'a "quoted" name', "O'Brien", '100% (approx.) = 1.0', '',
                              # LaTeX-style subscripts, str.format fields, a lone brace, printf conversions
                              'C_{t}', 'H_{t-1}', 'field {0} of {1}', '{', '%s %d', 'rate {r:.2f}']


@st.composite
def model_case(draw):
    from harness import econ
    spec = draw(econ.economy(zones=(1, 2), horizon=(2, 3)))
    texts = draw(st.lists(comment_text(DESC_TEXTS, 0), min_size=3, max_size=8))
    # the descriptions are also what gets logged: logging may be switched on while the model is put together
    return {'spec': spec, 'texts': texts, 'log': draw(st.booleans())}


def run_model(case_):
    from harness import econ, refsolve
    from sfc_models.equation_parser import EquationParser
    spec = case_['spec']
    texts = case_['texts']
    counter = [0]

    def desc(label):
        counter[0] += 1
        return texts[counter[0] % len(texts)]

    plain = econ.build(spec)
    if case_.get('log'):
        import os
        import shutil
        import tempfile
        from sfc_models.utils import Logger
        tmp = tempfile.mkdtemp(prefix='c14_')
        try:
            Logger.register_standard_logs(os.path.join(tmp, 'run'))
            fancy = econ.build(spec, desc=desc)
        finally:
            Logger.cleanup()
            shutil.rmtree(tmp, ignore_errors=True)
    else:
        fancy = econ.build(spec, desc=desc)
    if (plain.error is None) != (fancy.error is None):
        raise Violation('C14/description-changes-outcome', 'plain descriptions: %r; adversarial descriptions %r: %r' %
                        (plain.error, texts, fancy.error))
    if plain.error is not None:
        raise Reject('model refused with both description sets')
    snaps = []
    for b in (plain, fancy):
        p = EquationParser()
        p.ParseString(b.text)
        snaps.append(snapshot(p))
    if snaps[0] != snaps[1]:
        names = ['Endogenous', 'Lagged', 'Exogenous', 'InitialConditions', 'MaxTime', 'Err_Tolerance']
        bad = [n for n, a, c in zip(names, snaps[0], snaps[1]) if a != c]
        detail = ''
        for n, a, c in zip(names, snaps[0], snaps[1]):
            if a != c and isinstance(a, list):
                only_a = [x for x in a if x not in c][:3]
                only_c = [x for x in c if x not in a][:3]
                detail = ' only plain: %r; only adversarial: %r' % (only_a, only_c)
                break
        raise Violation('C14/description-changes-equations', 'descriptions %r change the parsed %r.%s' % (texts, bad, detail))
    s1 = refsolve.parse_final(plain.text)
    s2 = refsolve.parse_final(fancy.text)
    sol1 = s1.solve(spec['horizon'])
    sol2 = s2.solve(spec['horizon'])
    if sol1.status != sol2.status:
        raise Violation('C14/description-changes-solution', 'solvability differs: %r vs %r' % (sol1.status, sol2.status))
    if sol1.ok():
        for k in range(1, spec['horizon'] + 1):
            if sol1.values[k] != sol2.values[k]:
                bad = [v for v in sol1.values[k] if sol1.values[k][v] != sol2.values[k].get(v)][:3]
                raise Violation('C14/description-changes-solution', 'descriptions %r change the solution of %r at k=%d' % (texts, bad, k))
    word = any('exogenous' in t.lower() for t in texts)
    return {'nontrivial': word or any('=' in t or '#' in t for t in texts),
            'labels': ['marker-word-in-description'] if word else []}


FAMILIES = [
    Family('block-text', case, run, quick=5000, thorough=200000),
    Family('model-descriptions', model_case, run_model, quick=320, thorough=6000),
]

MANIFEST_INFO = {
    'level_text': 'Generated-input exploration: structured block specifications are rendered with generated order, spacing, '
                  'marker spelling and adversarial comment text; the parser\'s lists must equal the specification, and the '
                  'comment-free twin must parse identically. Model level: descriptions/long names from the same text must not '
                  'change the exact solution.',
    'design_ref': 'DESIGN.md section 3, C14',
    'level_note': 'Trusted: the generator\'s specification as ground truth. Variable names never contain the marker word.',
    'technique': 'property-based testing (render-then-parse round trip against the spec; metamorphic comment removal)',
}
