"""
C15 - an accepted initial steady state really is steady.
Code under test: EquationSolver.CalculateInitialSteadyState.
Oracle: on acceptance one forward step (exogenous frozen at k=0) moves no variable beyond a bound derived from the
acceptance rule; the solver's configuration is unchanged; otherwise NoEquilibriumError/ValueError.
"""
import copy
from fractions import Fraction

from hypothesis import strategies as st

from harness.core import Family, Violation, Reject
from harness import blocks

PROPERTY_ID = 'C15'
RULE = ('Linear lag systems x = A*LAG_x + b + g*G of 1-3 variables with generated dynamics: stable (row sums <= 0.9), '
        'unstable (a diagonal entry 1.1..3), unit-root drift in positive and negative direction, oscillating '
        '(x = -a*LAG_x + b, a in 0.5..1.1), rotations r*[[c,-s],[s,c]] with r in 0.9..1.05; constants of both signs so '
        'fixed points are frequently negative or zero; time-varying exogenous input; a derived-only difference variable; '
        'search horizon 5..200, tolerance 1e-2..1e-6, reduction on/off. Non-trivial: the search accepted and some '
        'non-excluded variable is negative at k=0, or the search rejected a drifting/unstable/oscillating system. '
        'Distinct: sha1 of the spec.')
RULE = RULE + (' Input shapes added after the seeded-change rounds (DESIGN.md section 8): ' + 'search horizons down to 0; variables called T and K; families stock-flow-per-variable, tight-solver-tolerance (ring systems, exact period map) and the small-level kind with the bound from the changes the search actually ended with.')
ASSUMPTIONS = [
    'family pure-lag-tight: systems without within-period coupling are solved exactly each period, so the forward step is '
    'A*(last-prev) and is bounded by max(1,|A|_inf)*max_j max(tol, 2e-4, tol*|x_j|) with no slack factor',
    'forward-step bound: |x1-x0|_v <= 4*max(1,|A|_inf)*(tol*max(1,|x0|_inf) + 2e-4): one forward step maps the last '
    'accepted backward change through A; 2e-4 is the code\'s own near-zero rule; factor 4 is slack',
    'systems are autonomous (no explicit dependence on k other than the excluded time axis t)',
    'family tight-solver-tolerance: rows have sum |coef| on simultaneous + lagged variables <= q < 1, so the period-to-'
    'period map has sup-norm <= 1; with ParameterErrorTolerance 1e-10/1e-12 the per-period solves are exact up to '
    '100*tolp*n*scale/(1-q), and the forward step is bounded by the largest change the acceptance rule lets through',
    'family stock-flow-per-variable: one stock x = a*LAG_x + b plus derived variables affine in (x, LAG_x), reduction on: '
    'every variable obeys change(k+1) = a*change(k) exactly, so each variable is held to max(1,|a|)*max(tol, tol*|v|) '
    '(2e-4 when |v| < 1e-4) on its own - the per-variable reading of the property, free of the system-wide scale',
]


def dec(n):
    return blocks.dec(n)


@st.composite
def case(draw):
    n = draw(st.integers(1, 3))
    # (T and K differ from the excluded time axes t and k by case only: they are ordinary variables)
    names = draw(st.sampled_from([['x', 'y', 'z'], ['T', 'K', 'Y'], ['K', 'x', 'T'], ['x', 'y', 'z']]))[:n]
    kind = draw(st.sampled_from(['stable', 'drift-neg', 'drift-pos', 'stable', 'unstable', 'oscillate', 'rotation',
                                 'stable-neg']))
    A = [[0] * n for _ in range(n)]      # hundredths
    for i in range(n):
        budget = 90
        for j in range(n):
            if draw(st.booleans()):
                c = draw(st.integers(-budget, budget)) if budget > 0 else 0
                A[i][j] = c
                budget -= abs(c)
    b = [draw(st.integers(-5000, 5000)) for _ in range(n)]
    if kind == 'stable-neg':
        b = [-abs(v) - 100 for v in b]
        A = [[abs(v) for v in row] for row in A]
    if kind == 'drift-neg':
        A[0] = [0] * n
        A[0][0] = 100
        b[0] = -draw(st.sampled_from([100, 1, 250, 10000]))
    elif kind == 'drift-pos':
        A[0] = [0] * n
        A[0][0] = 100
        b[0] = draw(st.sampled_from([100, 1, 250, 10000]))
    elif kind == 'unstable':
        A[0] = [0] * n
        A[0][0] = draw(st.sampled_from([110, 150, 300, -150, 1000]))
    elif kind == 'oscillate':
        A[0] = [0] * n
        A[0][0] = -draw(st.sampled_from([50, 90, 100, 110, 99]))
    elif kind == 'rotation' and n >= 2:
        r = draw(st.sampled_from([90, 100, 105, 99]))
        c, s = draw(st.sampled_from([(80, 60), (60, 80), (0, 100), (-80, 60)]))
        A[0] = [0] * n
        A[1] = [0] * n
        A[0][0], A[0][1] = r * c // 100, -r * s // 100
        A[1][0], A[1][1] = r * s // 100, r * c // 100
    g = [draw(st.sampled_from([0, 0, 100, -50])) for _ in range(n)]
    eqs = []
    for i, nm in enumerate(names):
        parts = []
        for j in range(n):
            if A[i][j]:
                parts.append(blocks.fmt_coef_term(A[i][j], 'LAG_' + names[j], 0))
        parts.append(('-' if b[i] < 0 else '+', dec(abs(b[i]))))
        if g[i]:
            parts.append(blocks.fmt_coef_term(g[i], 'G', 0))
        eqs.append([nm, blocks.join_signed(parts, ' '), 'sim'])
    if draw(st.booleans()):
        eqs.append(['dif', names[0] + ' - ' + names[-1] + ' - 1.0', 'leaf'])
    T = draw(st.integers(2, 4))
    gvals = [draw(st.integers(-2000, 2000)) / 100.0 for _ in range(T + 1)]
    ss_T = draw(st.sampled_from([200, 50, 20, 5, 100, 10, 2, 1, 0]))     # "all search horizons": down to none at all
    tol = draw(st.sampled_from(['1e-4', '1e-3', '1e-2', '1e-6', '1e-5']))
    if kind.startswith('drift') and float(tol) * ss_T > 0.05:
        ss_T = max(5, int(0.05 / float(tol)))
    norm = max([sum(abs(v) for v in row) / 100.0 for row in A] + [2.0])
    return {
        'eqs': eqs, 'lags': [['LAG_' + nm, nm, '(k-1)'] for nm in names], 'exo': [['G', repr(gvals), 'list', gvals]],
        'ics': [], 'maxtime': T, 'tol': '1e-9', 'layout': {'eqsp': ' = ', 'perm': None},
        'cert': {'family': kind, 'norm': norm, 'lam': {}, 'q': 0.0, 'feedforward': True},
        'ss_T': ss_T, 'ss_tol': tol, 'reduction': draw(st.booleans()),
        'via': draw(st.sampled_from(['direct', 'direct', 'solve'])),
    }


def config_snapshot(es):
    p = es.Parser
    exo_names = [v for v, _ in p.Exogenous]
    return {
        'Endogenous': list(p.Endogenous), 'Lagged': list(p.Lagged), 'Exogenous': [(a, repr(b)) for a, b in p.Exogenous],
        'Decoration': list(p.Decoration), 'MaxTime': p.MaxTime, 'Err_Tolerance': p.Err_Tolerance,
        'InitialConditions': dict(p.InitialConditions), 'MaxIterations': es.MaxIterations, 'TraceStep': es.TraceStep,
        'exo_series': {v: list(es.TimeSeries[v]) for v in exo_names if v in es.TimeSeries},
    }


def run(spec):
    from sfc_models.equation_solver import EquationSolver, NoEquilibriumError
    es = EquationSolver(run_equation_reduction=spec['reduction'])
    es.ParseString(blocks.render(spec))
    es.ParameterInitialSteadyStateMaxTime = spec['ss_T']
    es.ParameterInitialSteadyStateErrorToler = float(spec['ss_tol'])
    kind = spec['cert']['family']
    labels = ['kind:' + kind, 'ssT:%d' % spec['ss_T'], 'tol:' + spec['ss_tol']]
    es.ExtractVariableList()
    es.SetInitialConditions()
    before = config_snapshot(es)
    outcome, err = 'accepted', None
    try:
        es.CalculateInitialSteadyState()
    except Exception as ex:
        outcome, err = type(ex).__name__, ex
    after = config_snapshot(es)
    if after != before:
        diff = [k for k in before if before[k] != after[k]]
        raise Violation('C15/config-changed', 'the search changed the solver it initialises: %r (%s)' % (diff, outcome))
    labels.append('outcome:' + outcome)
    if outcome != 'accepted':
        if not isinstance(err, ValueError):
            raise Violation('C15/wrong-exception', 'search ended in %s: %s' % (outcome, err))
        return {'nontrivial': kind not in ('stable', 'stable-neg'), 'labels': labels}
    tol = float(spec['ss_tol'])
    excluded = set(['k'] + list(es.ParameterInitialSteadyStateExcludedVariables))
    exo_names = set(v for v, _ in es.Parser.Exogenous)
    x0 = {v: s[0] for v, s in es.TimeSeries.items()}
    fwd = copy.deepcopy(es)
    for v in exo_names:
        if v == 'k':
            continue
        fwd.TimeSeries[v] = [fwd.TimeSeries[v][0]] * len(fwd.TimeSeries[v])
    try:
        fwd.SolveStep(1)
    except Exception as ex:
        raise Violation('C15/forward-step-fails', 'after an accepted steady state the next period fails: %s: %s' %
                        (type(ex).__name__, ex))
    scale = max([1.0] + [abs(v) for k_, v in x0.items() if k_ not in excluded and k_ not in exo_names])
    C = 4.0 * max(1.0, spec['cert']['norm'])
    bound = C * (tol * scale + 2e-4)
    negative = False
    worst = 0.0
    for v, s in fwd.TimeSeries.items():
        if v in excluded or v in exo_names:
            continue
        d = abs(s[1] - s[0])
        worst = max(worst, d / bound)
        if s[0] < 0:
            negative = True
        if not d <= bound:
            raise Violation('C15/accepted-not-steady',
                            '%s system accepted as steady (search %d periods, tol %s) but %s moves from %r to %r in the next '
                            'period with frozen inputs (bound %.3g)' % (kind, spec['ss_T'], spec['ss_tol'], v, s[0], s[1], bound))
    if negative:
        labels.append('negative-value-accepted')
    if worst > 0.5:
        labels.append('ratio>0.5')
    return {'nontrivial': negative, 'labels': labels}


# ---------------------------------------------------------------------------------------------------
@st.composite
def tight_case(draw):
    """
    Pure lag systems (no within-period coupling, no derived variables): every period is solved exactly, so the forward
    step equals A*(last - prev) and the acceptance rule gives a bound without slack.  Amplitudes are drawn relative to
    the tolerance so that values sit just inside / outside the near-zero and relative thresholds.
    """
    n = draw(st.integers(1, 2))
    names = draw(st.sampled_from([['x', 'y'], ['T', 'K'], ['K', 'x'], ['x', 'y']]))[:n]
    tol = draw(st.sampled_from(['1e-2', '1e-3', '1e-4', '5e-2', '1e-5']))
    T = float(tol)
    kind = draw(st.sampled_from(['flip', 'flip', 'slow-decay', 'drift', 'rotation', 'stable', 'trend', 'small-level', 'delay2']))
    if kind == 'small-level':
        n, names = 2, names[:1] + ['y'] if len(names) == 1 else names[:2]
    A = [[0] * n for _ in range(n)]
    b = [0] * n
    if kind == 'flip':
        A[0][0] = -draw(st.sampled_from([100, 100, 99, 101]))
    elif kind == 'slow-decay':
        A[0][0] = draw(st.sampled_from([99, 98, -98, 95]))
    elif kind == 'drift':
        A[0][0] = 100
    elif kind == 'rotation' and n == 2:
        A[0][1], A[1][0] = -100, 100
    else:
        A[0][0] = draw(st.integers(-90, 90))
    if kind == 'small-level':
        # a level that is genuinely non-zero but below 1e-4 (a daily interest rate), held exactly constant, and a second
        # variable that depends on its lag with a large gain
        A[0][0] = 100
        A[1] = [draw(st.sampled_from([100000, 5000000, -250000])), 0]
        b[1] = draw(st.sampled_from([0, 0, 300]))
    elif n == 2 and kind != 'rotation':
        A[1][1] = draw(st.integers(-90, 90))
        A[1][0] = draw(st.sampled_from([0, 0, 50, -100]))
    u = draw(st.sampled_from([0.6, 0.9, 0.3, 0.45, 1.5, 5.0, 100.0, 0.05]))
    ics = [[nm, repr(T * u * draw(st.sampled_from([1, -1, 0.5])))] for nm in names]
    if kind == 'small-level':
        ics = [[names[0], repr(draw(st.sampled_from([8.2e-5, -5.5e-5, 3e-5, 9.9e-5])))]]
    if kind == 'drift':
        b[0] = draw(st.sampled_from([1, -1]))
        drift = repr(T * u * b[0])
    trend = None
    if kind == 'trend':
        # x = g + c*t with no feedback: every backward change is exactly |c| (t = k runs -T..0 in the search),
        # and the next period moves by |c| again
        A[0] = [0] * n
        trend = repr(T * u)
    eqs = []
    for i, nm in enumerate(names):
        parts = []
        for j in range(n):
            if A[i][j]:
                parts.append(blocks.fmt_coef_term(A[i][j], 'LAG_' + names[j], 0))
        if kind == 'drift' and i == 0:
            parts.append(('+', '(' + drift + ')'))
        if kind == 'small-level' and i == 1 and b[1]:
            parts.append(('+', dec(b[1])))
        if trend is not None and i == 0:
            parts.append(('+', draw(st.sampled_from(['3.0', '-7.5', '100.0']))))
            parts.append(('+', trend + draw(st.sampled_from(['*t', '*k']))))
        eqs.append([nm, blocks.join_signed(parts, ' ') if parts else '0.0', 'sim'])
    ss_T = draw(st.sampled_from([50, 51, 20, 5, 200, 7, 2, 1, 0]))
    lag_list = [['LAG_' + nm, nm, '(k-1)'] for nm in names]
    if kind == 'delay2':
        # a two-period delay (a lag of a lag): x = a*LAG2_x + c, a close to -1 gives the pattern p, p, q, q - a variable and its
        # second lag can both look flat over the last two periods while the first lag is still jumping
        a2 = draw(st.sampled_from([-100, -99, -95, 100, -101]))
        eqs = [[names[0], blocks.join_signed([blocks.fmt_coef_term(a2, 'LAG2_' + names[0], 0),
                                              ('+', draw(st.sampled_from(['10.0', '0.0', '3.5'])))], ' '), 'sim']]
        names = names[:1]
        ics = ics[:1]
        lag_list = [['LAG_' + names[0], names[0], '(k-1)'], ['LAG2_' + names[0], 'LAG_' + names[0], '(k-1)']]
        ss_T = draw(st.sampled_from([2, 3, 4, 5, 6, 7, 9, 50]))
        A = [[abs(a2)]]
    norm = max([sum(abs(v) for v in row) / 100.0 for row in A] + [1.0])
    return {
        'eqs': eqs, 'lags': lag_list, 'exo': [], 'ics': ics, 'maxtime': 2, 'tol': '1e-9',
        'layout': {'eqsp': ' = ', 'perm': None},
        'cert': {'family': 'tight:' + kind, 'norm': norm, 'lam': {}, 'q': 0.0, 'feedforward': True},
        'ss_T': ss_T, 'ss_tol': tol, 'reduction': draw(st.booleans()),
    }


def run_tight(spec):
    from sfc_models.equation_solver import EquationSolver
    es = EquationSolver(run_equation_reduction=spec['reduction'])
    es.ParseString(blocks.render(spec))
    es.ParameterInitialSteadyStateMaxTime = spec['ss_T']
    T = float(spec['ss_tol'])
    es.ParameterInitialSteadyStateErrorToler = T
    kind = spec['cert']['family']
    labels = ['kind:' + kind, 'tol:' + spec['ss_tol']]
    es.ExtractVariableList()
    es.SetInitialConditions()
    before = config_snapshot(es)
    outcome, err = 'accepted', None
    try:
        es.CalculateInitialSteadyState()
    except Exception as ex:
        outcome, err = type(ex).__name__, ex
    if config_snapshot(es) != before:
        raise Violation('C15/config-changed', 'the search changed the solver it initialises (%s)' % outcome)
    labels.append('outcome:' + outcome)
    if outcome != 'accepted':
        if not isinstance(err, ValueError):
            raise Violation('C15/wrong-exception', 'search ended in %s: %s' % (outcome, err))
        return {'nontrivial': True, 'labels': labels}
    excluded = set(['k'] + list(es.ParameterInitialSteadyStateExcludedVariables))
    fwd = copy.deepcopy(es)
    fwd.SolveStep(1)
    x0 = {v: s[0] for v, s in fwd.TimeSeries.items() if v not in excluded}
    # largest backward change the acceptance rule can have let through, per variable
    dmax = max(max(T, 2e-4, T * abs(v)) for v in x0.values())
    bound = max(1.0, spec['cert']['norm']) * dmax * (1.0 + 1e-6) + 1e-12
    # the same argument with the changes the search ACTUALLY ended with (public attribute TimeSeriesInitialSteadyState):
    # the state that is installed is the state that was verified, so one more exact period moves nothing by more than
    # |A| times the largest last change - zero, if the search had come to rest exactly
    ss = es.TimeSeriesInitialSteadyState
    back = [abs(ss[v][-1] - ss[v][-2]) for v in ss.keys() if v not in excluded and len(ss[v]) >= 2]
    scale_ = max([1.0] + [abs(v_) for v_ in x0.values()])
    bound_actual = max(1.0, spec['cert']['norm']) * max(back + [0.0]) * (1.0 + 1e-9) + 1e-12 * scale_ \
        if back and 'trend' not in kind else None
    near = False
    for v, s in fwd.TimeSeries.items():
        if v in excluded:
            continue
        d = abs(s[1] - s[0])
        if abs(s[0]) < 10 * T:
            near = True
        if bound_actual is not None and not d <= bound_actual:
            raise Violation('C15/installed-state-not-the-verified-one',
                            '%s accepted as steady: the search ended with a largest last change of %.3g, yet from the installed '
                            'k=0 values %s moves from %r to %r in the next period (at most %.3g possible from the verified state)' %
                            (kind, max(back), v, s[0], s[1], bound_actual))
        if not d <= bound:
            raise Violation('C15/accepted-not-steady',
                            '%s accepted as steady (search %d periods, tol %s) but %s moves from %r to %r in the next period; '
                            'the acceptance rule allows at most %.6g' % (kind, spec['ss_T'], spec['ss_tol'], v, s[0], s[1], bound))
    return {'nontrivial': near, 'labels': labels + (['value-near-threshold'] if near else [])}


# ---------------------------------------------------------------------------------------------------
@st.composite
def stockflow_case(draw):
    """
    One slowly adjusting stock x = a*LAG_x + b and derived variables that nothing else depends on (flow = x - LAG_x, gap
    = target - x, scaled combinations), solved with equation reduction so that the derived
    variables are exact functions of x.  Every variable v = c1*x + c2*LAG_x + c0 then satisfies
    change(k+1) = a * change(k) exactly, so the acceptance rule gives a PER-VARIABLE bound for the forward step.  The start
    value is placed so that the stock's last relative change is u*tol: the stock passes the relative test while the flow,
    whose relative change is |1-a| whatever the horizon, still moves.
    """
    a100 = draw(st.sampled_from([97, 99, 95, 90, -97, 98, 50, 100, -100]))
    a = a100 / 100.0
    tol = draw(st.sampled_from(['1e-4', '1e-3', '1e-2', '1e-5']))
    T = float(tol)
    ss_T = draw(st.sampled_from([200, 50, 100, 20, 7]))
    star = draw(st.sampled_from([1000.0, -1000.0, 10.0, 1e5, -25.0, 0.5]))
    u = draw(st.sampled_from([0.6, 0.9, 1.5, 0.3, 0.01, 1e-4, 30.0]))
    if abs(a100) == 100:
        b = star * T * u if a100 == 100 else star
        x0 = 0.0
    else:
        b = star * (1 - a)
        # last relative change of the stock ~ |1-a| * |a|**ss_T * r, r = |x0 - star| / |star|
        r = u * T / (abs(1 - a) * abs(a) ** ss_T)
        r = min(r, 1e6)
        x0 = star * (1 - r * draw(st.sampled_from([1, -1])))
    eqs = [['x', '%r*LAG_x + (%r)' % (a, b), 'sim']]
    # (a derived variable that feeds another derived variable is NOT classed as decorative by the reduction: it is then
    # iterated Jacobi-style at the search tolerance and may legitimately be one sweep stale - outside this exact regime)
    derived = draw(st.lists(st.sampled_from(['flow', 'gap', 'mix', 'half']), min_size=1, max_size=4, unique=True))
    c = draw(st.sampled_from([2.0, -0.5, 10.0]))
    for d in derived:
        rhs = {'flow': 'x - LAG_x', 'gap': '(%r) - x' % star, 'mix': '%r*x - %r*LAG_x + 3.0' % (c, c * a),
               'half': '0.5*(x - LAG_x) - 0.25*x'}[d]
        eqs.append([d, rhs, 'leaf'])
    order = draw(st.permutations(list(range(len(eqs)))))
    eqs = [eqs[i] for i in order]
    return {
        'eqs': eqs, 'lags': [['LAG_x', 'x', '(k-1)']], 'exo': [], 'ics': [['x', repr(x0)]], 'maxtime': 2, 'tol': '1e-9',
        'layout': {'eqsp': ' = ', 'perm': None},
        'cert': {'family': 'stockflow', 'norm': max(1.0, abs(a)), 'lam': {}, 'q': 0.0, 'feedforward': True},
        'ss_T': ss_T, 'ss_tol': tol, 'reduction': True, 'a': a, 'u': u, 'derived': derived,
    }


def run_stockflow(spec):
    from sfc_models.equation_solver import EquationSolver
    es = EquationSolver(run_equation_reduction=True)
    es.ParseString(blocks.render(spec))
    es.ParameterInitialSteadyStateMaxTime = spec['ss_T']
    T = float(spec['ss_tol'])
    es.ParameterInitialSteadyStateErrorToler = T
    labels = ['a:%r' % spec['a'], 'tol:' + spec['ss_tol'], 'u:%r' % spec['u']]
    es.ExtractVariableList()
    es.SetInitialConditions()
    decorative = set(v for v, _ in es.Parser.Decoration)
    if not set(spec['derived']) <= decorative:
        raise Reject('derived variables not classed as decorative: %r' % sorted(set(spec['derived']) - decorative))
    before = config_snapshot(es)
    outcome, err = 'accepted', None
    try:
        es.CalculateInitialSteadyState()
    except Exception as ex:
        outcome, err = type(ex).__name__, ex
    if config_snapshot(es) != before:
        raise Violation('C15/config-changed', 'the search changed the solver it initialises (%s)' % outcome)
    labels.append('outcome:' + outcome)
    if outcome != 'accepted':
        if not isinstance(err, ValueError):
            raise Violation('C15/wrong-exception', 'search ended in %s: %s' % (outcome, err))
        return {'nontrivial': True, 'labels': labels}
    excluded = set(['k'] + list(es.ParameterInitialSteadyStateExcludedVariables))
    fwd = copy.deepcopy(es)
    fwd.SolveStep(1)
    scale = max([1.0] + [abs(s[0]) for v, s in fwd.TimeSeries.items() if v not in excluded])
    A = max(1.0, abs(spec['a']))
    for v, s in fwd.TimeSeries.items():
        if v in excluded:
            continue
        # what the acceptance rule can have let through for THIS variable: absolute tol, relative tol, or two values
        # below 1e-4 in magnitude
        allowed = max(T, T * abs(s[0]))
        if abs(s[0]) < 1e-4:
            allowed = max(allowed, 2e-4)
        bound = A * allowed * (1.0 + 1e-6) + 1e-11 * scale
        d = abs(s[1] - s[0])
        if not d <= bound:
            raise Violation('C15/accepted-not-steady',
                            'stock-flow system (a=%r) accepted as steady (search %d periods, tol %s) but %s moves from %r to %r '
                            'in the next period; the acceptance rule allows at most %.6g for this variable' %
                            (spec['a'], spec['ss_T'], spec['ss_tol'], v, s[0], s[1], bound))
    return {'nontrivial': True, 'labels': labels}



# ---------------------------------------------------------------------------------------------------
@st.composite
def tightsolve_case(draw):
    """
    Systems WITH within-period coupling, solved with a tight per-step tolerance set on the solver
    (ParameterErrorTolerance 1e-10 / 1e-12), so that every period is solved essentially exactly and the acceptance rule
    bounds the forward step through the exact period-to-period map M = (I-A)^-1 B (computed by the harness in rational
    arithmetic).  Two shapes: 'rows' (blocks.system: every row sums to <= q < 1 over simultaneous and lagged variables,
    hence |M| <= 1) and 'ring' (x_i = a_i*x_(i+1) + b_i*LAG_x_i + c_i with the product of the a_i = g in 0.5..0.8 - the
    income/consumption loop of the textbook models, whose within-period iteration converges slowly).
    """
    shape = draw(st.sampled_from(['ring', 'ring', 'rows']))
    if shape == 'rows':
        spec = draw(blocks.system(n_sim=(2, 4), q_lo=50, q_hi=85, feedforward=False, lags=(1, 3), exos=(0, 0), consts=(0, 1),
                                  aliases=(0, 0), leaves=(0, 1), horizon=(2, 2), tols=('1e-6',), user_t=(False,),
                                  time_terms=False, max_row_terms=3))
        spec['M_norm'] = 1.0
        spec['rho'] = spec['cert']['q']
    else:
        n = draw(st.sampled_from([2, 2, 3]))
        names = ['Y', 'C', 'W'][:n]
        g = draw(st.sampled_from([80, 70, 50, 75, 60]))                      # hundredths: product of the ring gains
        a0 = draw(st.sampled_from([100, 125, 90, 100]))
        a = [Fraction(a0, 100)] + [Fraction(1)] * (n - 1)
        a[-1] = Fraction(g, 100) / a[0]
        u = draw(st.sampled_from([30, 60, 90, 0]))
        lag_on = draw(st.integers(0, n - 1))
        b = [Fraction(0)] * n
        b[lag_on] = Fraction(u, 100) * (1 - Fraction(g, 100)) / max(a)     # keeps the dynamics stable
        b[lag_on] = Fraction(round(float(b[lag_on]) * 1000), 1000)
        c = [draw(st.integers(-2000, 5000)) for _ in range(n)]
        eqs = []
        for i, nm in enumerate(names):
            rhs = '%s*%s' % (repr(float(a[i])), names[(i + 1) % n])
            if b[i]:
                rhs += ' + %s*LAG_%s' % (repr(float(b[i])), nm)
            rhs += ' + (%s)' % dec(c[i])
            eqs.append([nm, rhs, 'sim'])
        if draw(st.booleans()):
            eqs.append(['S', names[0] + ' - ' + names[1], 'leaf'])
        # exact period-to-period map M = (I - A)^-1 B for the ring (A has a_i at (i, i+1), B is diagonal)
        A = [[Fraction(0)] * n for _ in range(n)]
        for i in range(n):
            A[i][(i + 1) % n] = Fraction(repr(float(a[i])))
        Bm = [[Fraction(repr(float(b[i]))) if i == j else Fraction(0) for j in range(n)] for i in range(n)]
        M = _solve_linear([[(1 if i == j else 0) - A[i][j] for j in range(n)] for i in range(n)], Bm)
        rows = [sum(abs(x) for x in r) for r in M]
        if 'S' in [e[0] for e in eqs]:
            rows.append(sum(abs(M[0][j] - M[1][j]) for j in range(n)))
        spec = {'eqs': eqs, 'lags': [['LAG_' + nm, nm, '(k-1)'] for i, nm in enumerate(names) if b[i]], 'exo': [], 'ics': [],
                'maxtime': 2, 'tol': '1e-6', 'layout': {'eqsp': ' = ', 'perm': None},
                'cert': {'family': 'ring', 'q': float(Fraction(g, 100)) ** (1.0 / n), 'lam': {}, 'feedforward': False},
                'M_norm': float(max([Fraction(1)] + rows)), 'rho': (g / 100.0) ** (1.0 / n)}
    spec['shape'] = shape
    spec['ss_T'] = draw(st.sampled_from([10, 5, 20, 50, 200, 7]))
    spec['ss_tol'] = draw(st.sampled_from(['1e-4', '1e-3', '1e-2', '1e-5']))
    spec['tol_param'] = draw(st.sampled_from([1e-10, 1e-12])) if shape == 'rows' else 1e-10
    spec['reduction'] = draw(st.booleans())
    spec['ics'] = [[e[0], draw(st.sampled_from(['0.0', '100.0', '-50.0', '1000.0']))] for e in spec['eqs'] if e[2] == 'sim'
                   and draw(st.booleans())]
    return spec


def _solve_linear(A, B):
    """X with A X = B (square A, list-of-lists of Fractions), by Gauss-Jordan elimination."""
    n = len(A)
    aug = [list(A[i]) + list(B[i]) for i in range(n)]
    for col in range(n):
        piv = [r for r in range(col, n) if aug[r][col] != 0][0]
        aug[col], aug[piv] = aug[piv], aug[col]
        pv = aug[col][col]
        aug[col] = [x / pv for x in aug[col]]
        for r in range(n):
            if r != col and aug[r][col] != 0:
                f = aug[r][col]
                aug[r] = [x - f * y for x, y in zip(aug[r], aug[col])]
    return [row[n:] for row in aug]


def run_tightsolve(spec):
    from sfc_models.equation_solver import EquationSolver
    es = EquationSolver(run_equation_reduction=spec['reduction'])
    es.ParseString(blocks.render(spec))
    T = float(spec['ss_tol'])
    tolp = spec['tol_param']
    es.ParameterErrorTolerance = tolp
    es.ParameterInitialSteadyStateMaxTime = spec['ss_T']
    es.ParameterInitialSteadyStateErrorToler = T
    labels = ['shape:' + spec['shape'], 'tol:' + spec['ss_tol'], 'ssT:%d' % spec['ss_T']]
    es.ExtractVariableList()
    es.SetInitialConditions()
    before = config_snapshot(es)
    outcome, err = 'accepted', None
    try:
        es.CalculateInitialSteadyState()
    except Exception as ex:
        outcome, err = type(ex).__name__, ex
    if config_snapshot(es) != before or es.ParameterErrorTolerance != tolp:
        raise Violation('C15/config-changed', 'the search changed the solver it initialises (%s)' % outcome)
    labels.append('outcome:' + outcome)
    if outcome != 'accepted':
        if not isinstance(err, ValueError):
            raise Violation('C15/wrong-exception', 'search ended in %s: %s' % (outcome, err))
        return {'nontrivial': True, 'labels': labels}
    excluded = set(['k'] + list(es.ParameterInitialSteadyStateExcludedVariables))
    fwd = copy.deepcopy(es)
    fwd.MaxIterations = 20000      # the measuring step must reach the tight tolerance from an only-nearly-steady start
    try:
        fwd.SolveStep(1)
    except Exception as ex:
        raise Reject('forward step at the tight tolerance fails: %s' % type(ex).__name__)
    x0 = {v: s[0] for v, s in fwd.TimeSeries.items() if v not in excluded}
    scale = max([1.0] + [abs(v) for v in x0.values()])
    rho = spec['rho']
    n = len(x0)
    dmax = max(max(T, T * abs(v), 2e-4 if abs(v) < 1e-4 else 0.0) for v in x0.values())
    bound = spec['M_norm'] * dmax * (1.0 + 1e-6) + 100.0 * tolp * n * scale / (1.0 - rho) ** 2
    worst = 0.0
    for v, s in fwd.TimeSeries.items():
        if v in excluded:
            continue
        d = abs(s[1] - s[0])
        worst = max(worst, d / bound)
        if not d <= bound:
            raise Violation('C15/accepted-not-steady',
                            'coupled system solved at per-step tolerance %g accepted as steady (search %d periods, tol %s) but '
                            '%s moves from %r to %r in the next period; the acceptance rule allows at most %.6g' %
                            (tolp, spec['ss_T'], spec['ss_tol'], v, s[0], s[1], bound))
    if worst > 0.25:
        labels.append('ratio>0.25')
    return {'nontrivial': True, 'labels': labels}


FAMILIES = [
    Family('lag-systems', case, run, quick=3000, thorough=100000),
    Family('pure-lag-tight', tight_case, run_tight, quick=2500, thorough=60000),
    Family('stock-flow-per-variable', stockflow_case, run_stockflow, quick=1500, thorough=40000),
    Family('tight-solver-tolerance', tightsolve_case, run_tightsolve, quick=1200, thorough=30000),
]

MANIFEST_INFO = {
    'level_text': 'Generated-input exploration over dynamic regimes (stable, unstable, drifting both ways, oscillating, '
                  'rotating; negative and sign-changing variables), search horizons and tolerances; every acceptance is '
                  'validated by one real forward step against a bound derived from the acceptance rule, and the solver '
                  'configuration is compared before/after.',
    'design_ref': 'DESIGN.md section 3, C15',
    'level_note': 'Trusted: the forward SolveStep of the same solver as the measuring device; generated matrix norm.',
    'technique': 'property-based testing (dynamic-regime generator; forward-step validity oracle + configuration snapshot)',
}
