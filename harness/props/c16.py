"""
C16 - reading results never changes them.
Code under test: Model.GetTimeSeries, EquationSolver.GenerateCSVtext, BaseSolver.CreateCsvString.
Oracle: frozen deep snapshot of the stored results taken right after the solve; every retrieval is compared with the
slice of the snapshot the documentation promises; stored results are compared with the snapshot after every step.
"""
import copy

from hypothesis import strategies as st

from harness.core import Family, Violation, Reject
from harness import blocks

PROPERTY_ID = 'C16'
RULE = ('Operation lists (4-20 ops) over a solved Model (small generated block installed in Model.EquationSolver, or book '
        'model SIM solved through Model.main()): get(series, cutoff|None, group main|step|initial), set default cutoff, toggle '
        'time-zero suppression, mutate the last returned list (append/pop/clear/overwrite/sort), render CSV with a format. '
        'Second family: BaseSolver subclasses with generated variable lists (with/without t) and repeated CreateCsvString. '
        'Non-trivial: a get under suppression followed by another get of the same series, or a mutation of a returned '
        'list followed by a get, or two renderings (two of the three for the model family). Distinct: sha1 of the op list.')
RULE = RULE + (' Input shapes added after the seeded-change rounds (DESIGN.md section 8): ' + 'an independent cell-by-cell rendering of the stored series after every rendering; default cutoff 0; re-solves between reads.')
ASSUMPTIONS = [
    'the snapshot taken immediately after the solve is the reference for all later reads',
    'an unknown series name must raise KeyError and change nothing',
]

FORMATS = ['%.5g', '%.3f', '%s', '%r', '%.10e']


@st.composite
def model_case(draw):
    src = draw(st.sampled_from(['block', 'block', 'block', 'sim']))
    spec = {'src': src}
    if src == 'block':
        spec['block'] = draw(blocks.system(n_sim=(1, 3), q_hi=60, lags=(0, 2), exos=(0, 1), consts=(0, 1), leaves=(0, 1),
                                           horizon=(2, 6), tols=('1e-6',)))
        # a second block: the same solver object may be given new work between two reads
        spec['block2'] = draw(blocks.system(n_sim=(1, 3), q_hi=60, lags=(0, 1), exos=(0, 1), consts=(0, 1), horizon=(2, 5),
                                            tols=('1e-6',)))
        names = [e[0] for e in spec['block']['eqs']] + [l[0] for l in spec['block']['lags']] + \
                [e[0] for e in spec['block']['exo']] + ['k', 't'] + [e[0] for e in spec['block2']['eqs']][:2]
        T = spec['block']['maxtime']
    else:
        names = ['HH__F', 'GOV__T', 'GOOD__SUP_GOOD', 'k', 't', 'HH__AfterTax', 'GOV__DEM_GOOD']
        T = draw(st.integers(3, 6))
        spec['T'] = T
    spec['trace'] = draw(st.sampled_from([None, None, 1, 2]))
    spec['steady'] = draw(st.sampled_from([False, False, True])) if src == 'block' else False
    ops = []
    name_st = st.sampled_from(names[:6] + ['no_such_series'])
    from harness import gen
    for _ in range(draw(st.integers(4, gen.size(20, 50)))):
        k = draw(st.sampled_from(['get', 'get', 'get', 'get', 'suppress', 'mutate', 'mutate', 'cutoff', 'csv', 'get-step',
                                  'get-initial']))
        if k == 'get' and src == 'block' and draw(st.sampled_from([False] * 9 + [True])):
            ops.append(['resolve-other'])
            continue
        if k == 'get-initial':
            ops.append(['get', draw(name_st), draw(st.sampled_from([None, 1, 3, 70])), 'initial'])
            continue
        if k == 'get':
            ops.append(['get', draw(name_st), draw(st.sampled_from([None, None, 0, 1, 2, T, T + 3])), 'main'])
        elif k == 'get-step':
            ops.append(['get', draw(st.sampled_from(['iteration', 'iteration_error', names[0]])),
                        draw(st.sampled_from([None, 1, 3])), 'step'])
        elif k == 'suppress':
            ops.append(['suppress', draw(st.sampled_from([True, True, False]))])
        elif k == 'mutate':
            ops.append(['mutate', draw(st.sampled_from(['append', 'pop0', 'clear', 'set0', 'sort', 'del-last']))])
        elif k == 'cutoff':
            ops.append(['cutoff', draw(st.sampled_from([None, 0, 1, 2, T]))])
        else:
            ops.append(['csv', draw(st.sampled_from(FORMATS))])
    spec['ops'] = ops
    return spec


def frozen(holder):
    return {k: list(v) for k, v in holder.items()}


def run_model(spec):
    from sfc_models.models import Model
    if spec['src'] == 'block':
        mod = Model()
        o, es, ex = blocks.solve(spec['block'], reduction=True, trace_step=spec['trace'], steady=spec.get('steady'))
        if o != 'ok':
            raise Reject('block not solved: ' + o)
        mod.EquationSolver = es
    else:
        from sfc_models.gl_book.chapter3 import SIM
        mod = SIM('C', use_book_exogenous=True).build_model()
        mod.MaxTime = spec['T']
        if spec['trace'] is not None:
            mod.EquationSolver.TraceStep = spec['trace']
        mod.main()
        es = mod.EquationSolver
    S = frozen(es.TimeSeries)
    S_step = frozen(es.TimeSeriesStepTrace)
    S_init = frozen(es.TimeSeriesInitialSteadyState)
    csv_first = {}
    last = None
    stats = {'supp_get': {}, 'get_after_supp': False, 'mut_then_get': False, 'mutated': False, 'renders': 0}
    suppress = False
    default_cutoff = None
    for i, op in enumerate(spec['ops']):
        hist = spec['ops'][:i + 1]
        if op[0] == 'get':
            _, name, cutoff, group = op
            ref = {'main': S, 'step': S_step, 'initial': S_init}[group]
            eff = cutoff if cutoff is not None else default_cutoff
            try:
                got = mod.GetTimeSeries(name, cutoff=cutoff, group_of_series=group)
            except KeyError:
                if name in ref:
                    raise Violation('C16/keyerror-on-existing', 'GetTimeSeries(%r) raised KeyError; history %r' % (name, hist))
                got = None
            except IndexError as ex:
                # suppression on an empty slice
                if name in ref and len(ref[name][:(eff + 1) if eff is not None else None]) == 0:
                    got = None
                else:
                    raise Violation('C16/get-raises', 'GetTimeSeries(%r, %r) raised %r; history %r' % (name, cutoff, ex, hist))
            else:
                if name not in ref:
                    raise Violation('C16/unknown-series-returned', 'unknown series %r returned %r' % (name, got))
                want = list(ref[name]) if eff is None else list(ref[name][0:eff + 1])
                if suppress:
                    want = want[1:]
                if list(got) != want:
                    raise Violation('C16/get-value',
                                    'GetTimeSeries(%r, cutoff=%r, group=%r) with suppression=%s, default cutoff %r returned %r, '
                                    'stored results say %r; history %r' % (name, cutoff, group, suppress, default_cutoff,
                                                                           got, want, hist))
                if stats['mutated']:
                    stats['mut_then_get'] = True
                if suppress:
                    if stats['supp_get'].get(name):
                        stats['get_after_supp'] = True
                    stats['supp_get'][name] = True
                last = got
        elif op[0] == 'resolve-other':
            # new results are produced on the same solver; from now on they are what every read must return
            try:
                es.ParseString(blocks.render(spec['block2']))
                es.SolveEquation()
            except Exception as ex:
                raise Reject('second block not solved: ' + type(ex).__name__)
            S = frozen(es.TimeSeries)
            S_step = frozen(es.TimeSeriesStepTrace)
            S_init = frozen(es.TimeSeriesInitialSteadyState)
            csv_first = {}
            last = None
            stats['resolved'] = True
        elif op[0] == 'suppress':
            suppress = op[1]
            mod.TimeSeriesSupressTimeZero = op[1]
        elif op[0] == 'cutoff':
            default_cutoff = op[1]
            mod.TimeSeriesCutoff = op[1]
        elif op[0] == 'mutate':
            if last is not None:
                stats['mutated'] = True
                try:
                    if op[1] == 'append':
                        last.append(99.0)
                    elif op[1] == 'pop0':
                        last.pop(0)
                    elif op[1] == 'clear':
                        del last[:]
                    elif op[1] == 'set0':
                        last[0] = -12345.0
                    elif op[1] == 'sort':
                        last.sort(reverse=True)
                    else:
                        del last[-1]
                except IndexError:
                    pass
        elif op[0] == 'csv':
            fmt = op[1]
            try:
                txt = es.GenerateCSVtext(fmt)
            except Exception as ex:
                raise Violation('C16/csv-raises', 'GenerateCSVtext(%r) raised %r; history %r' % (fmt, ex, hist))
            stats['renders'] += 1
            if fmt in csv_first and csv_first[fmt] != txt:
                raise Violation('C16/csv-not-repeatable', 'GenerateCSVtext(%r) differs from its first rendering; history %r' %
                                (fmt, hist))
            csv_first.setdefault(fmt, txt)
            # "the same stored series always give the same text": the text is a function of the stored series and the
            # format alone - checked against an independent rendering (cell = format % value), so that text which depends
            # on what was rendered earlier in the process is noticed even when it is stable within this history
            from harness.props import c19
            c19.check_table(txt, {k_: list(v_) for k_, v_ in es.TimeSeries.items()}, fmt, bucket='C16/csv-text')
        # invariant: stored results unchanged
        now = frozen(es.TimeSeries)
        if now != S:
            bad = [k for k in S if now.get(k) != S[k]] + [k for k in now if k not in S]
            raise Violation('C16/stored-results-changed', 'after %r the stored series %r changed: %r -> %r' %
                            (hist, bad[:3], [S.get(b) for b in bad[:3]], [now.get(b) for b in bad[:3]]))
        if frozen(es.TimeSeriesInitialSteadyState) != S_init:
            raise Violation('C16/stored-initial-changed', 'after %r the stored steady-state search series changed' % (hist,))
        if frozen(es.TimeSeriesStepTrace) != S_step:
            raise Violation('C16/stored-trace-changed', 'after %r the stored step trace changed' % (hist,))
    score = int(stats['get_after_supp']) + int(stats['mut_then_get']) + int(stats['renders'] >= 2)
    labels = ['src:' + spec['src']] + [k for k in ('get_after_supp', 'mut_then_get') if stats[k]] + \
        (['re-solved-between-reads'] if stats.get('resolved') else [])
    if stats['renders'] >= 2:
        labels.append('two-renderings')
    return {'nontrivial': score >= 2, 'labels': labels}


# ----------------------------------------------------------------------------------------------
@st.composite
def base_case(draw):
    pool = ['t', 'x', 'y', 'G', 'LAG_x', 'HH__F', 'a']
    names = draw(st.lists(st.sampled_from(pool), min_size=1, max_size=6, unique=True))
    n = draw(st.integers(0, 4))
    data = {nm: [draw(st.integers(-50, 50)) / 4.0 for _ in range(n)] for nm in names}
    return {'names': names, 'data': data, 'calls': draw(st.integers(2, 4)), 'shared': draw(st.booleans())}


def run_base(spec):
    from sfc_models.base_solver import BaseSolver

    class M(BaseSolver):
        def __init__(self, names, data):
            BaseSolver.__init__(self, names)
            for k, v in data.items():
                setattr(self, k, list(v))

    names = list(spec['names'])
    shared = names if spec['shared'] else list(names)
    obj = M(shared, spec['data'])
    outs = []
    for i in range(spec['calls']):
        outs.append(obj.CreateCsvString())
        if obj.VariableList != spec['names']:
            raise Violation('C16/basesolver-variablelist-changed', 'after %d CreateCsvString calls VariableList is %r, was %r' %
                            (i + 1, obj.VariableList, spec['names']))
        if outs[-1] != outs[0]:
            raise Violation('C16/basesolver-csv-not-repeatable', 'call %d returned %r, first call %r' % (i + 1, outs[-1], outs[0]))
    header = outs[0].split('\n')[0].split('\t')
    want = (['t'] if 't' in spec['names'] else []) + [n for n in spec['names'] if n != 't']
    if header != want:
        raise Violation('C16/basesolver-header', 'header %r, expected %r' % (header, want))
    return {'nontrivial': 't' in spec['names'] and spec['names'][0] != 't', 'labels': ['t-present' if 't' in names else 'no-t']}


FAMILIES = [
    Family('model-reads', model_case, run_model, quick=2500, thorough=80000),
    Family('basesolver-csv', base_case, run_base, quick=1500, thorough=40000),
]

MANIFEST_INFO = {
    'level_text': 'Model-based exploration of call histories: generated sequences of retrievals, cutoff/suppression changes, '
                  'caller-side mutations and renderings are checked step by step against an immutable snapshot of the stored '
                  'results.',
    'design_ref': 'DESIGN.md section 3, C16',
    'level_note': 'Trusted: the snapshot taken right after the solve.',
    'technique': 'property-based testing, stateful (operation lists vs immutable snapshot model, invariant after every step)',
}
