"""
C17 - results depend only on the model, not on process history or diagnostics.
Oracle: every solve inside a generated in-process history is compared (keys and values, exact ==) with the same spec run
alone in a fresh interpreter (harness/c17_ref.py); a re-parsed solver must report exactly the new block's variables.
"""
import json
import os
import shutil
import subprocess
import sys
import tempfile

from hypothesis import strategies as st

from harness.core import Family, Violation, Reject, canonical, repo_root, verif_root
from harness import blocks
from harness.props import c09

PROPERTY_ID = 'C17'
RULE = ('Histories of 3-10 operations in one process over 2-3 generated block specs, 0-2 book-model specs (SIM, SIMEX1, PC '
        'with generated parameters) and 0-1 generated single-zone economy (its placeholder names carry the process-wide ID counter): solve a block with a fresh solver (reduction on/off), build and solve a model through '
        'main(), re-solve a used solver, re-parse a used solver with a different block and solve, switch standard logging on '
        '(temp directory owned by the case) / off, set TraceStep for the following solves, build throw-away models (shifts '
        'the ID counter). Each solve is compared with the same spec solved alone in a fresh interpreter. Non-trivial: >= 2 '
        'different specs interleaved and at least one re-parse, logging or tracing operation before a compared solve. '
        'Distinct: sha1 of the history.')
RULE = RULE + (' Input shapes added after the seeded-change rounds (DESIGN.md section 8): ' + 'unrelated Model() started in the middle of a construction; text-valued initial conditions under active logging; an iteration cap set on the solver object that later blocks run under.')
ASSUMPTIONS = [
    'PYTHONHASHSEED is pinned for parent and reference interpreters (interpreter-level state is not varied)',
    'reference = one fresh interpreter per spec (cached per spec inside a worker)',
]

_REF_CACHE = {}


def reference(item):
    key = canonical(item)
    if key in _REF_CACHE:
        return _REF_CACHE[key]
    env = dict(os.environ)
    env['PYTHONPATH'] = os.pathsep.join([repo_root(), verif_root()])
    env['PYTHONHASHSEED'] = '0'
    env['PYTHONWARNINGS'] = 'ignore'
    p = subprocess.run([sys.executable, '-m', 'harness.c17_ref'], input=json.dumps(item), capture_output=True, text=True,
                       env=env, cwd=verif_root(), timeout=600)
    if p.returncode != 0:
        raise RuntimeError('reference interpreter failed: ' + p.stderr[-2000:])
    out = json.loads(p.stdout)
    series = {k: [float.fromhex(x) if isinstance(x, str) and (x.startswith(('0x', '-0x')) or x in ('inf', '-inf', 'nan'))
                  else x for x in v] for k, v in out['series'].items()}
    _REF_CACHE[key] = (out['outcome'], series)
    if len(_REF_CACHE) > 400:
        _REF_CACHE.clear()
    return out['outcome'], series


def build_book_model(spec):
    from sfc_models.gl_book.chapter3 import SIM, SIMEX1
    from sfc_models.gl_book.chapter4 import PC
    model = spec['model']
    cls = {'SIM': SIM, 'SIMEX1': SIMEX1, 'PC': PC}[model]
    mod = cls('C7', use_book_exogenous=False).build_model()
    c = mod['C7']
    hh = c['HH']
    hh.AlphaIncome = float(spec['alpha1'])
    hh.AlphaFin = float(spec['alpha2'])
    c['TF'].TaxRate = float(spec['theta'])
    gov = c['TRE'] if model == 'PC' else c['GOV']
    gov.SetExogenous('DEM_GOOD', [float(g) for g in spec['G']])
    if spec.get('ic_text'):
        # initial conditions may be given as text (the value is written into the equation text either way)
        hh.AddInitialCondition('F', spec['V0'])
        gov.AddInitialCondition('F', '-' + spec['V0'])
    else:
        hh.AddInitialCondition('F', float(spec['V0']))
        gov.AddInitialCondition('F', -float(spec['V0']))
    if model == 'PC':
        c['DEP'].SetExogenous('r', [float(x) for x in spec['r']])
        hh.SetEquationRightHandSide('L0', spec['lambda0'])
    mod.MaxTime = min(spec['T'], 5)
    return mod


@st.composite
def case(draw):
    nb = draw(st.sampled_from([2, 3, 2]))
    bl = [draw(blocks.system(n_sim=(1, 4), q_hi=60, lags=(0, 2), exos=(0, 1), consts=(0, 2), aliases=(0, 1), leaves=(0, 1),
                             horizon=(1, 4), ic_prob=10, nonlinear=draw(st.booleans()), tols=('1e-6', '1e-8')))
          for _ in range(nb)]
    # every block gets its own variant of the user function f_half and uses it at least once, so that functions
    # registered on one solver would be visible if they leaked into another
    for b in bl:
        b['fscale'] = draw(st.sampled_from([50, 25, 10, -30, 40]))
        # the optional steady-state initialisation is a property of the solve request as well
        b['steady'] = draw(st.sampled_from([False, False, True]))
        b['max_iter'] = draw(st.sampled_from([None, None, None, 3, 8]))
        # whole-number parameters are written as such (N = 2): their k=0 value is a Python int inside the solver
        for e_ in b['eqs']:
            if e_[2] == 'const' and draw(st.booleans()):
                e_[1] = draw(st.sampled_from(['2', '3', '10', '1']))
        first = b['eqs'][0]
        first[1] = first[1] + ' + 0.10*f_half(' + first[0] + ')'
    nm = draw(st.sampled_from([1, 1, 2, 0]))
    models = [draw(c09.params(draw(st.sampled_from(['SIM', 'SIMEX1', 'PC'])))) for _ in range(nm)]
    for m_ in models:
        m_['ic_text'] = draw(st.booleans())
    from harness import econ
    econs = [draw(econ.economy(zones=(1, 1), horizon=(2, 2), gold=False))] if draw(st.sampled_from([True, False])) else []
    for e_ in econs:
        if draw(st.booleans()):
            # an unrelated model is started in the middle of this economy's construction
            e_['probes'] = list(e_.get('probes', [])) + [{'at': draw(st.sampled_from([2, 3, 1, 4])), 'kind': 'other-model'}]
    ops = []
    from harness import gen
    for _ in range(draw(st.integers(3, gen.size(10, 20)))):
        k = draw(st.sampled_from(['solve-block', 'reparse', 'solve-block', 'resolve', 'solve-model', 'log-on', 'log-off', 'log-on',
                                  'trace', 'throwaway', 'reparse', 'solve-econ']))
        if k == 'solve-econ':
            if econs:
                ops.append([k, 0])
            continue
        if k == 'solve-block':
            ops.append([k, draw(st.integers(0, nb - 1)), draw(st.booleans())])
        elif k == 'reparse':
            ops.append([k, draw(st.integers(0, nb - 1)), draw(st.integers(0, 5))])
        elif k == 'resolve':
            ops.append([k, draw(st.integers(0, 5))])
        elif k == 'solve-model':
            if nm:
                ops.append([k, draw(st.integers(0, nm - 1)), draw(st.booleans())])
        elif k == 'trace':
            ops.append([k, draw(st.sampled_from([1, 2, None]))])
        elif k == 'throwaway':
            ops.append([k, draw(st.integers(1, 3))])
        else:
            ops.append([k])
    return {'blocks': bl, 'models': models, 'econs': econs, 'ops': ops}


def same(a, b):
    if set(a.keys()) != set(b.keys()):
        return 'key sets differ: only here %r, only in the fresh process %r' % (sorted(set(a) - set(b)), sorted(set(b) - set(a)))
    for k in a:
        la, lb = list(a[k]), list(b[k])
        if len(la) != len(lb):
            return '%s has %d values here, %d in the fresh process' % (k, len(la), len(lb))
        for i, (x, y) in enumerate(zip(la, lb)):
            if x != y and not (x != x and y != y):
                return '%s[%d] = %r here, %r in the fresh process' % (k, i, x, y)
    return None


def run(spec):
    from sfc_models.equation_solver import EquationSolver
    from sfc_models.utils import Logger
    from sfc_models.models import Model, Country
    from sfc_models.sector import Sector
    tmp = tempfile.mkdtemp(prefix='c17_')
    solvers = []         # (solver, item that it currently represents)
    trace = None
    diag = False
    used_specs = set()
    diag_before_compare = False
    labels = []
    try:
        for i, op in enumerate(spec['ops']):
            hist = spec['ops'][:i + 1]
            if op[0] == 'solve-block' or op[0] == 'reparse':
                bi = op[1]
                bspec = spec['blocks'][bi]
                text = blocks.render(bspec)
                if op[0] == 'solve-block' or not solvers:
                    reduction = op[2] if op[0] == 'solve-block' else True
                    es = EquationSolver(run_equation_reduction=reduction)
                    for fn, f in blocks.user_funcs(bspec).items():
                        es.AddFunction(fn, f)
                    kind = 'fresh'
                    # the iteration cap is a setting of the solver OBJECT, made once when it is created; whatever is
                    # parsed into or solved on that object later runs under it
                    cap = bspec.get('max_iter')
                    if cap is not None:
                        es.MaxIterations = cap
                else:
                    es, _old = solvers[op[2] % len(solvers)]
                    if not isinstance(es, EquationSolver):
                        continue
                    cap = _old.get('max_iter')
                    reduction = es.RunEquationReduction
                    kind = 'reparsed'
                    for fn, f in blocks.user_funcs(bspec).items():
                        es.AddFunction(fn, f)
                    diag_before_compare = True
                es.TraceStep = trace
                item = {'type': 'block', 'spec': bspec, 'reduction': bool(reduction), 'steady': bool(bspec.get('steady')),
                        'max_iter': cap}
                es.ParameterSolveInitialSteadyState = bool(bspec.get('steady'))
                es.ParameterInitialSteadyStateMaxTime = 60
                try:
                    es.ParseString(text)
                    es.SolveEquation()
                    outcome = 'ok'
                except Exception as ex:
                    outcome = type(ex).__name__
                ro, rs = reference(item)
                if outcome != ro:
                    raise Violation('C17/outcome-differs', '%s solver, block %d: %s here, %s alone in a fresh process; history %r' %
                                    (kind, bi, outcome, ro, hist))
                if outcome == 'ok':
                    msg = same({k: list(v) for k, v in es.TimeSeries.items()}, rs)
                    if msg:
                        raise Violation('C17/' + ('reparse-remnants' if kind == 'reparsed' else 'series-differ'),
                                        '%s solver, block %d: %s; history %r' % (kind, bi, msg, hist))
                    if kind == 'reparsed':
                        want = set(e[0] for e in bspec['eqs']) | set(l[0] for l in bspec['lags']) | \
                            set(e[0] for e in bspec['exo']) | {'k', 't'}
                        if set(es.TimeSeries.keys()) != want:
                            raise Violation('C17/reparse-remnants', 're-parsed solver reports %r, the new block has %r' %
                                            (sorted(es.TimeSeries.keys()), sorted(want)))
                used_specs.add('b%d' % bi)
                if kind == 'fresh':
                    solvers.append((es, item))
                else:
                    solvers[op[2] % len(solvers)] = (es, item)
                if trace is not None or diag:
                    diag_before_compare = True
            elif op[0] == 'resolve':
                if not solvers:
                    continue
                es, item = solvers[op[1] % len(solvers)]
                target = es if isinstance(es, EquationSolver) else es.EquationSolver
                target.TraceStep = trace
                try:
                    target.SolveEquation()
                    outcome = 'ok'
                except Exception as ex:
                    outcome = type(ex).__name__
                ro, rs = reference(item)
                if outcome != ro:
                    raise Violation('C17/resolve-outcome-differs', 're-solve: %s, first solve in a fresh process: %s; history %r' %
                                    (outcome, ro, hist))
                if outcome == 'ok':
                    msg = same({k: list(v) for k, v in target.TimeSeries.items()}, rs)
                    if msg:
                        raise Violation('C17/resolve-differs', 're-solving the same solver: %s; history %r' % (msg, hist))
                diag_before_compare = True
            elif op[0] == 'solve-model':
                mspec = spec['models'][op[1]]
                item = {'type': 'model', 'spec': mspec}
                mod = None
                try:
                    mod = build_book_model(mspec)
                    mod.EquationSolver.TraceStep = trace
                    base = os.path.join(tmp, 'run%d' % i) if op[2] else None
                    mod.main(base)
                    outcome = 'ok'
                except Exception as ex:
                    outcome = type(ex).__name__
                diag = False     # main() closes all logs
                ro, rs = reference(item)
                if outcome != ro:
                    raise Violation('C17/model-outcome-differs', 'model %s: %s here, %s alone; history %r' %
                                    (mspec['model'], outcome, ro, hist))
                if outcome == 'ok':
                    msg = same({k: list(v) for k, v in mod.EquationSolver.TimeSeries.items()}, rs)
                    if msg:
                        raise Violation('C17/model-series-differ', 'model %s: %s; history %r' % (mspec['model'], msg, hist))
                used_specs.add('m%d' % op[1])
                if mod is not None:
                    solvers.append((mod, item))
                if op[2] or trace is not None:
                    diag_before_compare = True
            elif op[0] == 'solve-econ':
                from harness import econ
                espec = spec['econs'][op[1]]
                item = {'type': 'econ', 'spec': espec}
                built = econ.build(espec, maxtime=espec['horizon'])
                diag = False
                outcome = 'ok' if built.error is None else type(built.error).__name__
                ro, rs = reference(item)
                if outcome != ro:
                    raise Violation('C17/econ-outcome-differs', 'generated economy: %s here, %s alone; history %r' %
                                    (outcome, ro, hist))
                if outcome == 'ok':
                    msg = same({k: list(v) for k, v in built.model.EquationSolver.TimeSeries.items()}, rs)
                    if msg:
                        raise Violation('C17/econ-series-differ', 'generated economy: %s; history %r' % (msg, hist))
                used_specs.add('e%d' % op[1])
            elif op[0] == 'log-on':
                Logger.register_standard_logs(os.path.join(tmp, 'log%d' % i))
                diag = True
            elif op[0] == 'log-off':
                Logger.cleanup()
                diag = False
            elif op[0] == 'trace':
                trace = op[1]
            elif op[0] == 'throwaway':
                for j in range(op[1]):
                    m0 = Model()
                    c0 = Country(m0, 'TW')
                    Sector(c0, 'A').GetVariableName('F')
    finally:
        Logger.cleanup()
        shutil.rmtree(tmp, ignore_errors=True)
    return {'nontrivial': len(used_specs) >= 2 and diag_before_compare, 'labels': labels}


FAMILIES = [Family('histories', case, run, quick=480, thorough=6000)]

MANIFEST_INFO = {
    'level_text': 'Model-based exploration of process histories: generated interleavings of building, solving, re-solving and '
                  're-parsing several solvers and models with logging/tracing toggles; every result is compared exactly with '
                  'the same spec solved alone in a fresh interpreter.',
    'design_ref': 'DESIGN.md section 3, C17',
    'level_note': 'Trusted: the fresh-interpreter run as reference. Interpreter-level state (hash seed) is pinned.',
    'technique': 'property-based testing, stateful (operation histories; differential against fresh-process reference)',
}
