"""
C18 - codes are labels: renaming and embedding leave an economy unchanged.
Metamorphic oracle on exact solutions, with a structural variable-name map built from the two object graphs.
"""
import re

from hypothesis import strategies as st

from harness.core import Family, Violation, Reject
from harness import econ, refsolve, expr, gen
from harness.props import c01

PROPERTY_ID = 'C18'
RULE = ('rename: EconSpecs (1-2 zones) x an injective renaming of country codes, government/central-bank/household/'
        'capitalist/firm/tax-flow codes and goods/labour market codes, passed through the parameters the constructors '
        'accept; default and renamed builds are solved exactly and compared under the structural name map (variable = '
        'country position, sector role, local name with embedded codes replaced by the identity of what they denote). '
        'embed: EconSpecs of 2-3 zones without links, built jointly (with/without an unused external sector) and each zone '
        'alone; every variable must follow the same series; no equation of one zone may mention a variable of another. '
        'book-embed: 2-3 of the bundled builders SIM/SIMEX1/PC placed in one Model through their model= parameter vs alone. '
        'Non-trivial: rename - goods or labour code differs from the default with a zero-margin firm or an expectations '
        'household, or >= 4 codes changed; embed - >= 2 zones with taxes and a money market or a federated zone. '
        'Distinct: sha1 of the spec.')
RULE = RULE + (' Input shapes added after the seeded-change rounds (DESIGN.md section 8): ' + "non-ASCII codes; substring-related currency and sector codes; one period solved by the library's own solver in the rename family; codes passed as equal-but-not-identical strings; mid-declaration cash flows.")
ASSUMPTIONS = [
    'ConsolidatedGovernment/Treasury tie DEM_GOOD and PRIM_BAL to the literal GOOD without a parameter: in a full country '
    'whose goods code is renamed these two variables are not compared (all others are)',
    'new codes are identifier-shaped, free of "__", unique in the model, and never reuse the literal GOOD for another market',
]

CODE_POOL = ['ADMIN', 'STATE', 'FAM', 'WORKERS', 'FIRM', 'CORP', 'LEVY', 'FOOD', 'WORK', 'JOBS', 'BREAD', 'RICH', 'BANK',
             'FISC', 'X1', 'QQ', 'ALPHA', 'Gv', 'hh', 'Bz', 'NORTH', 'SOUTH', 'ZED', 'K9', 'OIL', 'TOIL', 'MINT', 'OWNERS',
             'R2', 'D2', 'CITY', 'LAND', 'HH', 'BUS', 'GOV', 'TF', 'LAB', 'CA', 'US',
             # identifier-shaped codes need not be ASCII
             '\u00d6ST', 'M\u00e9nages', '\u00c9tat', 'Soci\u00e9t\u00e9', 'Travail', '\u03a9']


@st.composite
def rename_case(draw):
    spec = draw(econ.economy(zones=(1, 2), horizon=(2, 3)))
    pool = draw(st.permutations(CODE_POOL))
    pool = list(pool)
    rename = {}
    used = set()

    def fresh():
        while pool:
            c = pool.pop()
            if c not in used:
                used.add(c)
                return c
        return 'Z%d' % len(used)

    n_changed = 0
    plan = []
    for zi, z in enumerate(spec['zones']):
        for ci, c in enumerate(z['countries']):
            cands = [c['code']]
            if c['gov'] is not None:
                cands.append(c['gov']['code'])
                if c['gov']['kind'] in ('treasury_cb', 'gold_cb'):
                    cands.append(c['gov']['cb_code'])
            cands += [h['code'] for h in c['hh']]
            if c['cap'] is not None:
                cands.append(c['cap']['code'])
            if c['bus'] is not None:
                cands.append(c['bus']['code'])
            if c['tax'] is not None:
                cands.append(c['tax']['code'])
            if c['hh']:
                cands += [c['goods'], c['labour']]
            if c['money'] is not None:
                used.add(c['money']['code'])
            if c['deposit'] is not None:
                used.add(c['deposit']['code'])
            if c.get('bonds') is not None:
                used.add(c['bonds']['code'])
            for code in cands:
                change = draw(st.sampled_from([True, True, False]))
                plan.append((zi, ci, code, change))
                if not change:
                    used.add(code)
    # codes that are kept are reserved first; new codes are then drawn fresh, so the renaming is injective model-wide
    for zi, ci, code, change in plan:
        m = rename.setdefault('%d.%d' % (zi, ci), {})
        if change:
            m[code] = fresh()
            n_changed += 1
    return {'spec': spec, 'rename': rename, 'n_changed': n_changed}


def structural_map(built, spec, rename=None):
    """full variable name -> structural key"""
    def nm(zi, ci, code):
        if rename is None:
            return code
        return rename.get((zi, ci), {}).get(code, code)
    fullcodes = {}
    for key, sec in built.sectors.items():
        fullcodes[sec.FullCode] = 'S%d.%d.%s' % key
    out = {}
    for key, sec in built.sectors.items():
        zi, ci, role = key
        c = spec['zones'][zi]['countries'][ci]
        table = {}
        # asset markets are referred to by their short code throughout the zone
        for key2, sec2 in built.sectors.items():
            if key2[0] == zi and key2[2] in ('money', 'deposit', 'bonds'):
                table[sec2.Code] = 'S%d.%d.%s' % key2
        # sectors of the same country are referred to by their short code
        for key2, sec2 in built.sectors.items():
            if key2[0] == zi and key2[1] == ci:
                table[sec2.Code] = 'S%d.%d.%s' % key2
        table.update(fullcodes)
        if c['hh']:
            table[nm(zi, ci, c['goods'])] = 'S%d.%d.goods' % (zi, ci)
            table[nm(zi, ci, c['labour'])] = 'S%d.%d.labour' % (zi, ci)
        # markets of other countries are referred to as <country code>_<market code> whatever the number of countries
        for zj, z in enumerate(spec['zones']):
            for cj, c2 in enumerate(z['countries']):
                if c2['hh'] and (zj, cj, 'goods') in built.sectors:
                    cc = built.countries[(zj, cj)].Code
                    table[cc + '_' + nm(zj, cj, c2['goods'])] = 'S%d.%d.goods' % (zj, cj)
                    table[cc + '_' + nm(zj, cj, c2['labour'])] = 'S%d.%d.labour' % (zj, cj)
        for var in sec.EquationBlock.GetEquationList():
            m = re.match(r'^(LAG_)?(DEM_|SUP_|WGT_|INT)(.+)$', var)
            canon = var
            if m and m.group(3) in table:
                canon = (m.group(1) or '') + m.group(2) + '<' + table[m.group(3)] + '>'
            out[sec.GetVariableName(var)] = (zi, ci, role, canon)
    ext = built.model.ExternalSector
    if ext is not None:
        for sec in ext.GetSectors():
            for var in sec.EquationBlock.GetEquationList():
                out[sec.GetVariableName(var)] = ('EXT', sec.Code, var)
    return out


def exact_solution(built, spec):
    if built.error is not None:
        return None, built.error
    try:
        system = refsolve.parse_final(built.text)
        sol = system.solve(spec['horizon'])
    except refsolve.ParseProblem as ex:
        return None, ex
    return (system, sol), None


def compare(spec, b1, b2, map1, map2, skip, bucket, what):
    r1, e1 = exact_solution(b1, spec)
    r2, e2 = exact_solution(b2, spec)
    if (e1 is None) != (e2 is None):
        raise Violation(bucket + '/outcome-differs', '%s: first build %r, second build %r' % (what, e1, e2))
    if e1 is not None:
        raise Reject('both builds refused: %s' % type(e1).__name__)
    (sys1, sol1), (sys2, sol2) = r1, r2
    if sol1.status != sol2.status:
        raise Violation(bucket + '/solvability-differs', '%s: %r vs %r' % (what, sol1.status, sol2.status))
    if not sol1.ok():
        raise Reject('reference solve: %r' % sol1.status[-1])
    inv2 = {}
    for name, key in map2.items():
        inv2[key] = name
    seen = set()
    K = spec['horizon']
    for name, key in map1.items():
        if key in skip:
            continue
        if key not in inv2:
            raise Violation(bucket + '/variable-unmatched', '%s: variable %s (%r) has no counterpart in the other build' %
                            (what, name, key))
        seen.add(key)
        other = inv2[key]
        for k in range(1, K + 1):
            a = sol1.values[k].get(name)
            b = sol2.values[k].get(other)
            if a is None or b is None:
                raise Violation(bucket + '/variable-undefined', '%s: %s / %s not defined by the final equations' % (what, name, other))
            if a != b:
                raise Violation(bucket + '/value-differs', '%s: %s = %s but %s = %s at k=%d' %
                                (what, name, float(a), other, float(b), k))
    for key, name in inv2.items():
        if key not in seen and key not in skip:
            raise Violation(bucket + '/variable-unmatched', '%s: variable %s (%r) exists only in the second build' % (what, name, key))
    return sys1, sys2


def run_rename(case_):
    spec = case_['spec']
    rename = {}
    for k, m in case_['rename'].items():
        zi, ci = k.split('.')
        rename[(int(zi), int(ci))] = m
    # one period is solved by the library's own solver as well (its reading of the emitted text is part of what must not
    # depend on the names); the series themselves are compared on the exact reference solution
    b1 = econ.build(spec, maxtime=1)
    b2 = econ.build(spec, rename=rename, maxtime=1)
    from sfc_models.equation_solver import ConvergenceError
    if isinstance(b1.error, ConvergenceError) or isinstance(b2.error, ConvergenceError):
        b1 = econ.build(spec)
        b2 = econ.build(spec, rename=rename)
    labels, feats = c01.classify(spec)
    skip = set()
    special = False
    for (zi, ci), m in rename.items():
        c = spec['zones'][zi]['countries'][ci]
        if c['hh'] and c['goods'] in m and c['role'] == 'full':
            skip.add((zi, ci, 'gov', 'DEM_GOOD'))
            skip.add((zi, ci, 'gov', 'PRIM_BAL'))
        if c['hh'] and (c['goods'] in m or c['labour'] in m):
            if (c['bus'] and c['bus']['kind'] == 'single' and float(c['bus']['margin']) == 0.0) or \
                    any(h['kind'] == 'expectations' for h in c['hh']):
                special = True
    if b1.error is not None:
        raise Reject('default build refused: %s' % type(b1.error).__name__)
    if b2.error is not None:
        raise Violation('C18/renamed-build-refused', 'renaming %r makes the build fail: %s: %s' %
                        (case_['rename'], type(b2.error).__name__, str(b2.error)[:200]))
    map1 = structural_map(b1, spec)
    map2 = structural_map(b2, spec, rename)
    compare(spec, b1, b2, map1, map2, skip, 'C18/rename', 'renaming %r' % (case_['rename'],))
    if special:
        labels.append('market-code-renamed-with-literal-user')
    return {'nontrivial': special or case_['n_changed'] >= 4, 'labels': labels}


# -------------------------------------------------------------------------------------------------
@st.composite
def embed_case(draw):
    spec = draw(econ.economy(zones=(2, 3), horizon=(2, 3), links=False, gold=False))
    spec['links'] = []
    spec['external'] = draw(st.sampled_from(['none', 'none', 'first', 'last', 'middle']))
    if spec['external'] == 'none':
        spec['xr'] = {}
    return spec


def run_embed(spec):
    joint = econ.build(spec)
    labels, feats = c01.classify(spec)
    if joint.error is not None:
        raise Violation('C18/joint-build-refused', 'economies without links cannot be built in one model: %s: %s' %
                        (type(joint.error).__name__, str(joint.error)[:200]))
    mapj = structural_map(joint, spec)
    sysj = None
    for zi in range(len(spec['zones'])):
        s1 = dict(spec)
        s1['external'] = 'none'
        s1['xr'] = {}
        alone = econ.build(s1, zones_subset=[zi])
        mapa = structural_map(alone, spec)
        mj = {n: k for n, k in mapj.items() if k[0] == zi}
        sysj, _ = compare(spec, joint, alone, mj, mapa, set(), 'C18/embed', 'zone %d joint vs alone' % zi)
    # isolation: no equation of one zone mentions a variable of another zone
    for name, key in mapj.items():
        if key[0] == 'EXT' or name not in sysj.eqs:
            continue
        for tok in expr.names(sysj.eqs[name]):
            k2 = mapj.get(tok)
            if k2 is not None and k2[0] != 'EXT' and k2[0] != key[0]:
                raise Violation('C18/embed/cross-reference', 'equation of %s mentions %s of another economy' % (name, tok))
    nt = len(spec['zones']) >= 2 and (('money' in feats) or ('federated' in feats))
    return {'nontrivial': nt, 'labels': labels}


# -------------------------------------------------------------------------------------------------
@st.composite
def book_case(draw):
    kinds = draw(st.lists(st.sampled_from(['PC', 'SIM', 'SIMEX1', 'REG']), min_size=2, max_size=3))
    codes = ['CA', 'US', 'JP'][:len(kinds)]
    params = [{'kind': k, 'code': c, 'G': econ.dec2(draw(st.integers(100, 5000))),
               'alpha1': econ.dec4(draw(st.integers(3000, 8000))), 'alpha2': econ.dec4(draw(st.integers(1000, 6000)))}
              for k, c in zip(kinds, codes)]
    return {'members': params, 'external': draw(st.booleans()), 'K': draw(st.integers(2, 3))}


def _book_build(members, model, K):
    from sfc_models.gl_book.chapter3 import SIM, SIMEX1
    from sfc_models.gl_book.chapter4 import PC
    from sfc_models.gl_book.chapter6 import REG
    cls = {'SIM': SIM, 'SIMEX1': SIMEX1, 'PC': PC, 'REG': REG}
    for m in members:
        b = cls[m['kind']](m['code'], model=model, use_book_exogenous=False)
        mod = b.build_model()
        c = mod[m['code']]
        if m['kind'] == 'REG':
            c['TRE'].SetExogenous('DEM_GOOD_N', '[%s]*%d' % (m['G'], K + 2))
            c['TRE'].SetExogenous('DEM_GOOD_S', '[%s]*%d' % (m['G'], K + 2))
            for h in ('HH_N', 'HH_S'):
                c[h].AlphaIncome = float(m['alpha1'])
                c[h].AlphaFin = float(m['alpha2'])
                c[h].SetEquationRightHandSide('WGT_DEP', '0.6')
            continue
        gov = c['GOV'] if m['kind'] != 'PC' else c['TRE']
        gov.SetExogenous('DEM_GOOD', '[%s]*%d' % (m['G'], K + 2))
        c['HH'].AlphaIncome = float(m['alpha1'])
        c['HH'].AlphaFin = float(m['alpha2'])
        if m['kind'] == 'PC':
            # constant portfolio share keeps the system affine for the exact solver
            c['HH'].SetEquationRightHandSide('WGT_DEP', '0.6')
    return model


def run_book(spec):
    from sfc_models.models import Model
    from sfc_models.external import ExternalSector
    K = spec['K']
    joint = Model()
    if spec['external']:
        ExternalSector(joint)
    _book_build(spec['members'], joint, K)
    joint.MaxTime = K
    joint.EquationSolver.MaxTime = 0
    try:
        jt = joint.main()
    except Exception as ex:
        raise Violation('C18/book-joint-refused', 'book models %r cannot be embedded together: %s: %s' %
                        ([m['kind'] for m in spec['members']], type(ex).__name__, str(ex)[:200]))
    sj = refsolve.parse_final(jt)
    try:
        solj = sj.solve(K)
    except refsolve.ParseProblem as ex:
        raise Violation('C18/book-joint-not-closed', 'book models %r embedded together: %s' %
                        ([m['kind'] for m in spec['members']], ex))
    if not solj.ok():
        raise Reject('joint reference solve: %r' % solj.status[-1])
    for m in spec['members']:
        alone = Model()
        _book_build([m], alone, K)
        alone.MaxTime = K
        alone.EquationSolver.MaxTime = 0
        at = alone.main()
        sa = refsolve.parse_final(at)
        sola = sa.solve(K)
        if not sola.ok():
            raise Reject('alone reference solve: %r' % sola.status[-1])
        for var in sola.values[1]:
            if '__' not in var:
                continue
            jv = m['code'] + '_' + var
            if jv not in solj.values[1] and '__SUP_' in var:
                # a market's per-supplier variable embeds the supplier's full code, which gains the prefix as well
                head, rest = var.split('__SUP_', 1)
                jv = m['code'] + '_' + head + '__SUP_' + m['code'] + '_' + rest
            for k in range(1, K + 1):
                if jv not in solj.values[k]:
                    raise Violation('C18/book-variable-missing', '%s of the stand-alone %s has no counterpart %s in the joint model' %
                                    (var, m['kind'], jv))
                if solj.values[k][jv] != sola.values[k][var]:
                    raise Violation('C18/book-value-differs', '%s: alone %s, embedded (%s) %s at k=%d' %
                                    (var, float(sola.values[k][var]), jv, float(solj.values[k][jv]), k))
    return {'nontrivial': True, 'labels': ['+'.join(sorted(m['kind'] for m in spec['members']))]}


FAMILIES = [
    Family('rename', rename_case, run_rename, quick=320, thorough=6000),
    Family('embed', embed_case, run_embed, quick=240, thorough=4000),
    Family('book-embed', book_case, run_book, quick=96, thorough=1500),
]

MANIFEST_INFO = {
    'level_text': 'Metamorphic exploration: generated economies are rebuilt under generated injective renamings, and sets of '
                  'generated economies are built jointly and alone; exact rational solutions are compared under a structural '
                  'variable-name map, in both directions.',
    'design_ref': 'DESIGN.md section 3, C18',
    'level_note': 'Trusted: harness reference solver; the structural map (sector position + local name with embedded codes '
                  'resolved to object identities). Two literal-bound government variables are not compared under a goods rename.',
    'technique': 'property-based metamorphic testing (renaming / embedding twins, exact reference-solver comparison)',
}
