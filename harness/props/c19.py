"""
C19 - tab-delimited output is a faithful table of the results.
Code under test: TimeSeriesHolder.GetSeriesList / GenerateCSVtext, EquationSolver.GenerateCSVtext.
Oracle: parse the text back (inverse), header order rule, row counts.
"""
import math
import re

from hypothesis import strategies as st

from harness.core import Family, Violation, Reject
from harness import blocks

PROPERTY_ID = 'C19'
RULE = ('Dictionaries of 0-8 identifier-named series (priority names iteration, iteration_error, iteration_abs_change, k, t '
        'mixed with ordinary names in upper/lower case) of ragged lengths 0-6 holding ints and floats of any magnitude and '
        'sign incl. inf/nan/-0.0/1e308/5e-324, rendered with formats %.Ng, %.Nf, %.Ne (N=0..17), %s, %r, %d-free; plus '
        'solved BlockSpecs. Non-trivial: >= 3 series with at least one priority name not inserted first, ragged lengths, '
        'and a non-integer value; or a solved block. Distinct: sha1 of the spec.')
RULE = RULE + (' Input shapes added after the seeded-change rounds (DESIGN.md section 8): ' + 'format strings with literal text around the conversion; the holder created with another axis name; the solver-level horizon incl. 0; all-empty series.')
ASSUMPTIONS = [
    '"alphabetically" is accepted as either plain string order or case-insensitive order (both are checked to be permutations '
    'of the stored names with the priority names first, in priority order)',
    'precision of a format: %.Ng relative 0.5*10^(1-N) (N>=1), %.Nf absolute 0.5*10^-N, %.Ne relative 0.5*10^-N, %s/%r exact',
]

PRIORITY = ['iteration', 'iteration_error', 'iteration_abs_change', 'k', 't']
NAMES = PRIORITY + ['x', 'X', 'a', 'B', 'HH__F', 'hh__f', 'GOV__T', 'LAG_x', 'z9', 'Z', 'tt', 'K', '_u', 'year', 'HH2__F']
# the holder's constructor takes the name of ITS time axis; the documented column order does not depend on it
AXES = ['k', 'k', 'iteration', 'year', 't', 'x', 'date']
SPECIAL = [0.0, -0.0, 1e308, -1e308, 5e-324, float('inf'), float('-inf'), float('nan'), 1e-7, 123456789.123456789,
           0.1, 1 / 3.0, -2.5, 1e16, 99999.5]


@st.composite
def holder_case(draw):
    names = draw(st.lists(st.sampled_from(NAMES), min_size=0, max_size=8, unique=True))
    series = []
    for nm in names:
        n = draw(st.sampled_from([3, 0, 1, 2, 4, 5, 6]))
        vals = []
        for _ in range(n):
            kind = draw(st.sampled_from(['float', 'int', 'special', 'float']))
            if kind == 'int':
                vals.append(['i', str(draw(st.integers(-10 ** 12, 10 ** 12)))])
            elif kind == 'special':
                vals.append(['f', repr(draw(st.sampled_from(SPECIAL)))])
            else:
                vals.append(['f', repr(draw(st.floats(allow_nan=False, allow_infinity=False, width=64)))])
        series.append([nm, vals])
    # the holder is a dict: series may be added or removed through any dict method between two renderings
    later = []
    for _ in range(draw(st.sampled_from([0, 0, 1, 2, 3]))):
        how = draw(st.sampled_from(['update', 'setdefault', 'setitem', 'append-value', 'pop', 'del', 'ior']))
        nm = draw(st.sampled_from(NAMES))
        n = draw(st.sampled_from([2, 1, 3, 4]))
        later.append([how, nm, [['f', repr(draw(st.integers(-1000, 1000)) / 8.0)] for _ in range(n)]])
    fk = draw(st.sampled_from(['g', 'f', 'e', 's', 'r', 'default']))
    prec = draw(st.integers(0, 17))
    fmt = {'g': '%%.%dg' % prec, 'f': '%%.%df' % min(prec, 12), 'e': '%%.%de' % prec, 's': '%s', 'r': '%r', 'default': None}[fk]
    if fmt is not None and draw(st.sampled_from([True, False, False, False])):
        # "all format strings": literal text around the conversion (quoted fields, a unit, a percent sign)
        pre, post = draw(st.sampled_from(DECORATIONS))
        fmt = pre + fmt + post
    return {'series': series, 'fmt': fmt, 'later': later, 'axis': draw(st.sampled_from(AXES))}


def val(v):
    return int(v[1]) if v[0] == 'i' else float(v[1])


DECORATIONS = [('"', '"'), ('', '"'), ("'", "'"), ('', '%%'), ('v=', ''), ('[', ']'), ('', ' in'), ('$', '')]
_FMT_RE = re.compile(r'^(?P<pre>(?:[^%]|%%)*)(?P<core>%[-+ #0]*\d*(?:\.\d+)?[sdrfeEgG])(?P<post>(?:[^%]|%%)*)$')


def split_format(fmt):
    """(literal prefix, conversion, literal suffix) of a one-conversion format string; literals with %% resolved."""
    m = _FMT_RE.match(fmt)
    if m is None:
        return '', fmt, ''
    return m.group('pre').replace('%%', '%'), m.group('core'), m.group('post').replace('%%', '%')


def check_table(text, data, fmt, bucket='C19'):
    """data: dict name -> list of numbers; fmt: format string actually used."""
    if len(data) == 0:
        if text != '':
            raise Violation(bucket + '/empty', 'empty holder renders %r' % text)
        return
    if not text.endswith('\n'):
        raise Violation(bucket + '/no-final-newline', 'text does not end with a newline')
    lines = text[:-1].split('\n')
    header = lines[0].split('\t')
    if sorted(header) != sorted(data.keys()):
        raise Violation(bucket + '/header-set', 'header %r does not name every stored series exactly once (%r)' %
                        (header, sorted(data.keys())))
    pri = [p for p in PRIORITY if p in data]
    if header[:len(pri)] != pri:
        raise Violation(bucket + '/header-priority', 'header %r: priority columns should be %r' % (header, pri))
    rest = header[len(pri):]
    if rest != sorted(rest) and rest != sorted(rest, key=lambda s: (s.lower(), s)):
        raise Violation(bucket + '/header-order', 'non-priority columns %r are not in alphabetical order' % (rest,))
    n = min(len(v) for v in data.values())
    rows = lines[1:]
    if len(rows) != n:
        raise Violation(bucket + '/row-count', '%d data rows, shortest series has %d points' % (len(rows), n))
    for i, row in enumerate(rows):
        cells = row.split('\t')
        if len(cells) != len(header):
            raise Violation(bucket + '/cell-count', 'row %d has %d cells, header has %d' % (i, len(cells), len(header)))
        for name, cell in zip(header, cells):
            v = data[name][i]
            want = fmt % (v,)
            if cell != want:
                raise Violation(bucket + '/cell-format', 'row %d column %s: cell %r, value %r with %r gives %r' %
                                (i, name, cell, v, fmt, want))
            pre_, core_, post_ = split_format(fmt)
            inner = cell
            if pre_ or post_:
                if not (cell.startswith(pre_) and cell.endswith(post_) and len(cell) >= len(pre_) + len(post_)):
                    raise Violation(bucket + '/cell-unparseable', 'cell %r lacks the literal text of format %r' % (cell, fmt))
                inner = cell[len(pre_):len(cell) - len(post_)]
            try:
                back = float(inner)
            except ValueError:
                raise Violation(bucket + '/cell-unparseable', 'cell %r does not parse as a number' % cell)
            fv = float(v)
            if math.isnan(fv):
                ok = math.isnan(back)
            elif math.isinf(fv):
                ok = back == fv
            else:
                # compare as exact decimals: a value near the largest float may legitimately round up past it
                from fractions import Fraction
                if math.isfinite(back):
                    ok = abs(back - fv) <= precision(core_, fv)
                else:
                    try:
                        ok = abs(Fraction(inner) - Fraction(fv)) <= Fraction(precision(core_, fv))
                    except (ValueError, ZeroDivisionError):
                        ok = False
            if not ok:
                raise Violation(bucket + '/cell-precision', 'row %d column %s: %r parsed back as %r from %r (format %r)' %
                                (i, name, v, back, cell, fmt))


def precision(fmt, v):
    a = abs(v)
    if fmt in ('%s', '%r'):
        return 0.0
    n = int(fmt[2:-1])
    kind = fmt[-1]
    tiny = 5e-324
    if kind == 'f':
        return 0.5 * 10.0 ** (-n) * (1 + 1e-9) + a * 1e-15 + tiny
    if kind == 'e':
        return a * 0.5 * 10.0 ** (-n) * (1 + 1e-9) + a * 1e-15 + tiny
    nn = max(n, 1)
    return a * 0.5 * 10.0 ** (1 - nn) * (1 + 1e-9) + a * 1e-15 + tiny


def run_holder(spec):
    from sfc_models.utils import TimeSeriesHolder
    h = TimeSeriesHolder(spec.get('axis', 'k'))
    data = {}
    for nm, vals in spec['series']:
        data[nm] = [val(v) for v in vals]
        h[nm] = list(data[nm])
    fmt = spec['fmt']
    try:
        text = h.GenerateCSVtext() if fmt is None else h.GenerateCSVtext(fmt)
    except Exception as ex:
        raise Violation('C19/render-raises', 'GenerateCSVtext(%r) raised %s: %s on %r' % (fmt, type(ex).__name__, ex, data))
    check_table(text, data, fmt if fmt is not None else '%.5g')
    if h.GetSeriesList() != (text.split('\n')[0].split('\t') if data else []):
        raise Violation('C19/serieslist', 'GetSeriesList() %r differs from the header' % (h.GetSeriesList(),))
    # second rendering after changes made through the dict API
    changed = False
    for how, nm, vals in spec.get('later', []):
        v = [val(x) for x in vals]
        if how == 'update':
            h.update({nm: list(v)})
            data[nm] = v
        elif how == 'ior':
            h |= {nm: list(v)}
            data[nm] = v
        elif how == 'setdefault':
            h.setdefault(nm, list(v))
            data.setdefault(nm, v)
        elif how == 'setitem':
            h[nm] = list(v)
            data[nm] = v
        elif how == 'append-value':
            h.AppendValue(nm, v[0])
            data.setdefault(nm, [])
            data[nm] = data[nm] + [v[0]]
        elif how == 'pop':
            h.pop(nm, None)
            data.pop(nm, None)
        elif how == 'del':
            if nm in h:
                del h[nm]
                del data[nm]
        changed = True
        try:
            text2 = h.GenerateCSVtext() if fmt is None else h.GenerateCSVtext(fmt)
        except Exception as ex:
            raise Violation('C19/render-raises-after-change', 'after %s(%r) GenerateCSVtext raised %s: %s' %
                            (how, nm, type(ex).__name__, ex))
        check_table(text2, data, fmt if fmt is not None else '%.5g', bucket='C19/after-dict-change')
    lens = set(len(v) for v in data.values())
    pri_late = any(nm in PRIORITY for nm, _ in spec['series'][1:])
    nonint = any(v[0] == 'f' for nm, vals in spec['series'] for v in vals)
    labels = ['fmt:' + (fmt or 'default')[-1]]
    if changed:
        labels.append('re-rendered-after-dict-change')
    if len(lens) > 1:
        labels.append('ragged')
    return {'nontrivial': len(data) >= 3 and pri_late and len(lens) > 1 and nonint, 'labels': labels}


@st.composite
def solved_case(draw):
    spec = draw(blocks.system(n_sim=(1, 4), q_hi=60, lags=(0, 2), exos=(0, 2), consts=(0, 1), aliases=(0, 1), leaves=(0, 1),
                              horizon=(0, 6), tols=('1e-6',), user_t=(False, True)))
    spec['fmt'] = draw(st.sampled_from([None, '%.5g', '%.3f', '%r', '%.12e', '%s', '"%.3f"', '%.1f"', '%.2f%%']))
    spec['reduction'] = draw(st.booleans())
    # the horizon is given in the text, or set on the solver (then the text states another one, which is overridden)
    spec['text_maxtime'] = draw(st.sampled_from([None, None, 0, 3, 9, 1]))
    return spec


def run_solved(spec):
    if spec.get('text_maxtime') is not None:
        tmp = dict(spec)
        tmp['maxtime'] = spec['text_maxtime']
        o, es, ex = blocks.solve(spec, reduction=spec['reduction'], text=blocks.render(tmp), horizon_attr=spec['maxtime'])
    else:
        o, es, ex = blocks.solve(spec, reduction=spec['reduction'])
    if o != 'ok':
        raise Reject('not solved: ' + o)
    fmt = spec['fmt']
    text = es.GenerateCSVtext() if fmt is None else es.GenerateCSVtext(fmt)
    data = {k: list(v) for k, v in es.TimeSeries.items()}
    check_table(text, data, fmt or '%.5g', bucket='C19/solved')
    rows = text[:-1].split('\n')[1:]
    if len(rows) != spec['maxtime'] + 1:
        raise Violation('C19/solved-rows', 'solved block with horizon %d renders %d data rows' % (spec['maxtime'], len(rows)))
    header = text.split('\n')[0].split('\t')
    if header[:2] != ['k', 't']:
        raise Violation('C19/solved-header', 'header of a solved block starts %r' % (header[:3],))
    return {'nontrivial': True, 'labels': ['solved']}


@st.composite
def model_log_case(draw):
    return {'model': draw(st.sampled_from(['SIM', 'SIMEX1', 'PC'])), 'T': draw(st.integers(1, 8)),
            'G': '%d.%d' % (draw(st.integers(1, 90)), draw(st.integers(0, 9)))}


def run_model_log(spec):
    """Model.main(base) logs the table to <base>_out.txt: it must be the faithful table of the solved model."""
    import os
    import shutil
    import tempfile
    from sfc_models.gl_book.chapter3 import SIM, SIMEX1
    from sfc_models.gl_book.chapter4 import PC
    from sfc_models.utils import Logger
    cls = {'SIM': SIM, 'SIMEX1': SIMEX1, 'PC': PC}[spec['model']]
    mod = cls('C', use_book_exogenous=False).build_model()
    gov = mod['C']['TRE'] if spec['model'] == 'PC' else mod['C']['GOV']
    gov.SetExogenous('DEM_GOOD', '[%s]*%d' % (spec['G'], spec['T'] + 3))
    mod.MaxTime = spec['T']
    tmp = tempfile.mkdtemp(prefix='c19_')
    try:
        try:
            mod.main(os.path.join(tmp, 'run'))
        except Exception as ex:
            raise Reject('model not solved: ' + type(ex).__name__)
        finally:
            Logger.cleanup()
        with open(os.path.join(tmp, 'run_out.txt')) as f:
            text = f.read()
    finally:
        shutil.rmtree(tmp, ignore_errors=True)
    data = {k: list(v) for k, v in mod.EquationSolver.TimeSeries.items()}
    # the logger appends nothing but may ensure a final newline
    check_table(text, data, '%.5g', bucket='C19/model-log')
    rows = text[:-1].split('\n')[1:]
    if len(rows) != spec['T'] + 1:
        raise Violation('C19/model-log-rows', 'logged table has %d data rows for horizon %d' % (len(rows), spec['T']))
    if text != mod.EquationSolver.GenerateCSVtext():
        raise Violation('C19/model-log-differs', 'logged table differs from GenerateCSVtext()')
    return {'nontrivial': True, 'labels': ['model:' + spec['model']]}


FAMILIES = [
    Family('holder', holder_case, run_holder, quick=5000, thorough=300000),
    Family('model-log', model_log_case, run_model_log, quick=64, thorough=1500),
    Family('solved', solved_case, run_solved, quick=800, thorough=30000),
]

MANIFEST_INFO = {
    'level_text': 'Generated-input exploration: generated dictionaries of series (ragged, any magnitude, non-finite) and '
                  'format strings are rendered and the text is parsed back cell by cell; header order and row-count rules '
                  'are checked; solved blocks must give horizon+1 rows.',
    'design_ref': 'DESIGN.md section 3, C19',
    'level_note': 'Trusted: Python % formatting as the meaning of "rendered with the requested format".',
    'technique': 'property-based testing (inverse-parse / round-trip oracle over generated tables and formats)',
}
