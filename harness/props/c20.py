"""
C20 - generated stand-alone solver agrees with the in-process solver.
Code under test: sfc_models.deprecated.iterative_machine_generator.IterativeMachineGenerator (+ BaseSolver).
Oracle: execute the written module; residuals of the block's equations on the module's own output; differential with
EquationSolver when both start from the same k=0 values; header rule of its table.
"""
import importlib.util
import os
import shutil
import sys
import tempfile

from hypothesis import strategies as st

from harness.core import Family, Violation, Reject, spec_hash
from harness import blocks, expr

PROPERTY_ID = 'C20'
RULE = ('Contractive affine BlockSpecs (q <= 0.6, 1-5 simultaneous variables, lags, initial conditions, exogenous lists, '
        'constants, aliases, leaves; with and without a user-defined t; reduction flag of the generator on/off) are written '
        'by IterativeMachineGenerator.main() into a per-case temporary directory, imported under a unique module name and '
        'run. Non-trivial: block without user-defined t, with >= 1 lag and >= 1 exogenous list. Distinct: sha1 of the spec.')
RULE = RULE + (' Input shapes added after the seeded-change rounds (DESIGN.md section 8): ' + "constants (any literal spelling) as divisors; math expressions in initial conditions and exogenous paths; variables named like the module's locals (err, cnt); a stated tolerance of zero on recursive blocks.")
ASSUMPTIONS = [
    'residual bound from the generated module\'s absolute stop rule (sum of |changes| <= tol): 4*tol*(1+Lambda), no magnitude factor',
    'series are compared with the in-process solver only when all shared variables agree at k=0 '
    '(the in-process solver additionally propagates constants at k=0)',
]


@st.composite
def case(draw):
    spec = draw(blocks.system(n_sim=(1, 5), q_hi=60, lags=(0, 3), exos=(0, 2), consts=(0, 2), aliases=(0, 1), leaves=(0, 2),
                              horizon=(1, 5), ic_prob=20, tols=('1e-4', '1e-6', '1e-8', '1e-3', None, '0.01'), user_t=(False, False, True),
                              alias_ic=False, const_mag=draw(st.sampled_from([5000, 5000, 500000]))))
    spec['gen_reduction'] = draw(st.sampled_from([False, False, True]))
    if spec['cert'].get('feedforward') and draw(st.sampled_from([True, False, False, False])):
        # a recursive (triangular) block reaches an exact fixed point: a stated tolerance of zero is a legitimate request
        spec['tol'] = draw(st.sampled_from(['0', '0.', '0.0']))
    # the step counter k may be used by any equation, and the time axis may be defined without it
    tmode = draw(st.sampled_from(['as-drawn', 'lagged-t', 'as-drawn', 'lagged-t']))
    if tmode == 'lagged-t':
        spec['eqs'] = [e for e in spec['eqs'] if e[2] != 't']
        spec['eqs'].append(['t', 't_prev + 0.25', 't'])
        spec['lags'].append(['t_prev', 't', '(k-1)'])
        spec['cert']['lam']['t'] = 1.0
    if draw(st.sampled_from([True, False])):
        spec['eqs'].append(['kk', draw(st.sampled_from(['2.0*k + 1.0', '0.5*k', 'k*k - 1.0'])), 'leaf'])
        spec['cert']['lam']['kk'] = 0.0
    if draw(st.sampled_from([True, False, False])):
        # ordinary variable names that happen to be the names of the emitted module's local variables
        first = [e[0] for e in spec['eqs'] if e[2] == 'sim'][0]
        nm_ = draw(st.sampled_from(['err', 'cnt', 'err', 'new_vector']))
        spec['eqs'].append([nm_, draw(st.sampled_from(['%s - 1.0', '0.5*%s', '-%s', '100.0 + %s'])) % first, 'leaf'])
        spec['cert']['lam'][nm_] = 0.0
    consts_ = [e for e in spec['eqs'] if e[2] == 'const']
    if consts_ and draw(st.sampled_from([True, False])):
        # a parameter written as a number in any literal form, used as a divisor: a constant is known from the start
        # (its value at k=0 is the number itself), so the quotient is defined in the very first sweep of period 1
        cn = consts_[0]
        cn[1] = draw(st.sampled_from(['2.5e-2', '1E1', '0.5', '5e-1', '4.', '.25', '1e0', '-2.0', '1_0.0']))
        spec['eqs'].append(['pv', '3.0 / %s + 1.0' % cn[0], 'leaf'])
        spec['cert']['lam']['pv'] = 0.0
    spec['layout']['perm'] = None
    # the generator object may be reused: an earlier block (with a loose stated tolerance) parsed and written first
    if draw(st.sampled_from([True, False, False])):
        pre = draw(blocks.system(n_sim=(1, 3), q_hi=50, lags=(0, 1), exos=(0, 1), consts=(0, 1), horizon=(1, 3),
                                 tols=('0.05', '1e-2', '.5')))
        spec['pre_block'] = pre
    if draw(st.sampled_from([True, False])):
        # give every non-constant variable an initial condition, so that the generated module and the in-process
        # solver start from the same k=0 state and their series can be compared
        have = set(n for n, _ in spec['ics'])
        for name, rhs, kind in spec['eqs']:
            if kind != 'const' and name not in have:
                spec['ics'].append([name, draw(st.sampled_from(['5.0', '-2.5', '0.0', '10', '0.125', 'sqrt(16.)', '2*pi',
                                                                'exp(0.0) + 1.0']))])
        spec['layout']['perm'] = None
    if spec['exo'] and draw(st.sampled_from([True, False, False])):
        # an exogenous path written with math-library functions / constants (constant expressions may use them)
        import math
        e0 = spec['exo'][0]
        n = len(e0[3])
        item, val = draw(st.sampled_from([('sqrt(4.0)', 2.0), ('pi', math.pi), ('exp(1.0)', math.exp(1.0)), ('floor(2.5) + 0.5', 2.5)]))
        spec['exo'][0] = [e0[0], '[%s]*%d' % (item, n), 'repeat', [val] * n]
    # the template indexes exogenous lists directly: make sure they are long enough (they are, by construction)
    return spec


def run(spec):
    from sfc_models.deprecated.iterative_machine_generator import IterativeMachineGenerator
    text = blocks.render(spec)
    tmp = tempfile.mkdtemp(prefix='c20_')
    modname = 'c20gen_' + spec_hash(spec)
    labels = ['user-t' if any(e[2] == 't' for e in spec['eqs']) else 'default-t',
              'gen-reduction:%s' % spec['gen_reduction']]
    try:
        path = os.path.join(tmp, modname + '.py')
        try:
            if spec.get('pre_block') is not None:
                labels.append('generator-object-reused')
                g = IterativeMachineGenerator(blocks.render(spec['pre_block']), run_equation_reduction=spec['gen_reduction'])
                g.main(os.path.join(tmp, modname + '_pre.py'))
                g.ParseString(text)
            else:
                g = IterativeMachineGenerator(text, run_equation_reduction=spec['gen_reduction'])
            g.main(path)
        except Exception as ex:
            raise Violation('C20/generator-raises', 'IterativeMachineGenerator raised %s: %s' % (type(ex).__name__, ex))
        try:
            sp = importlib.util.spec_from_file_location(modname, path)
            mod = importlib.util.module_from_spec(sp)
            sp.loader.exec_module(mod)
        except Exception as ex:
            raise Violation('C20/import-fails', 'generated module does not import: %s: %s' % (type(ex).__name__, ex))
        try:
            obj = mod.SFCModel()
            obj.main()
        except Exception as ex:
            raise Violation('C20/run-fails', 'generated module fails when run: %s: %s\n%s' % (type(ex).__name__, ex, text))
        T = spec['maxtime']
        eqs = blocks.equations_of(spec)
        if not any(e[2] == 't' for e in spec['eqs']):
            eqs['t'] = 'k'
        series = {}
        for name in list(eqs) + [e[0] for e in spec['exo']]:
            if not hasattr(obj, name):
                raise Violation('C20/variable-missing', 'generated object has no series %s' % name)
            series[name] = list(getattr(obj, name))
        for name in eqs:
            if len(series[name]) != T + 1:
                raise Violation('C20/length', '%s has %d values, horizon+1 = %d' % (name, len(series[name]), T + 1))
        for name, txt, form, values in spec['exo']:
            if series[name] != list(values[:T + 1]):
                raise Violation('C20/exogenous', '%s = %r, supplied %r' % (name, series[name], values[:T + 1]))
        tol = float(spec['tol'] or '1e-8')
        lam = spec['cert']['lam']
        for k in range(1, T + 1):
            env = {name: s[k] for name, s in series.items()}
            for lagn, src, spell in spec['lags']:
                env[lagn] = series[src][k - 1]
            env['k'] = float(k)
            scale = max([1.0] + [abs(v) for v in env.values()])
            for name, rhs in eqs.items():
                want = expr.float_eval(rhs, env)
                # the module stops when the ABSOLUTE sum of changes is <= tol, so x - g(x) = g(old) - g(new) is bounded by
                # Lambda*tol with no magnitude factor (plus float rounding)
                bound = 4.0 * tol * (1.0 + lam.get(name, 1.0)) + 1e-12 * scale
                if not abs(series[name][k] - want) <= bound:
                    raise Violation('C20/residual', '%s = %s at k=%d: module value %r, equation gives %r (bound %.3g)' %
                                    (name, rhs, k, series[name][k], want, bound))
        # table
        try:
            csv = obj.CreateCsvString()
        except Exception as ex:
            raise Violation('C20/table-raises', 'CreateCsvString raised %s: %s' % (type(ex).__name__, ex))
        header = csv.split('\n')[0].split('\t')
        nonlag = list(eqs) + [e[0] for e in spec['exo']]
        if header[0] != 't' or sorted(header) != sorted(nonlag):
            raise Violation('C20/table-header', 'header %r; expected t first and each of %r once' % (header, sorted(nonlag)))
        if len(csv.strip().split('\n')) != T + 2:
            raise Violation('C20/table-rows', 'table has %d lines for horizon %d' % (len(csv.strip().split('\n')), T))
        # differential with the in-process solver
        o, es, ex = blocks.solve(spec, reduction=False)
        if o == 'ok':
            same0 = all(es.TimeSeries[n][0] == series[n][0] for n in eqs)
            if same0:
                labels.append('same-k0')
                q = spec['cert']['q']
                for k in range(1, T + 1):
                    scale = max([1.0] + [abs(series[n][k]) for n in eqs])
                    bound = 40.0 * tol * scale / (1.0 - q)
                    for n in eqs:
                        if not abs(es.TimeSeries[n][k] - series[n][k]) <= bound:
                            raise Violation('C20/differs-from-in-process',
                                            '%s at k=%d: module %r, EquationSolver %r (bound %.3g)' %
                                            (n, k, series[n][k], es.TimeSeries[n][k], bound))
            else:
                labels.append('different-k0')
        nontrivial = not any(e[2] == 't' for e in spec['eqs']) and len(spec['lags']) >= 1 and len(spec['exo']) >= 1
        return {'nontrivial': nontrivial, 'labels': labels}
    finally:
        sys.modules.pop(modname, None)
        shutil.rmtree(tmp, ignore_errors=True)


FAMILIES = [Family('generated-module', case, run, quick=3000, thorough=60000)]

MANIFEST_INFO = {
    'level_text': 'Generated-input exploration: each generated block is turned into a Python module by the code generator, '
                  'the module is imported and executed, and its own output is substituted back into the block\'s equations; '
                  'where the k=0 states coincide the series are compared with the in-process solver.',
    'design_ref': 'DESIGN.md section 3, C20',
    'level_note': 'Trusted: Python eval as the meaning of an equation; generator contraction certificates.',
    'technique': 'property-based testing (program generation + execution; substitute-back and differential oracles)',
}
