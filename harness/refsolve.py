"""
Exact reference solver (DESIGN.md 2.3): independent of sfc_models.

  parse_final(text)            -> System   (own line classifier for the emitted format)
  System.solve(K, state0)      -> Solution (Fractions; per-period outcome unique / singular / nonaffine)

The solver works period by period: known values (exogenous, lags, k) are substituted, every right-hand side is evaluated
as an affine form over the unknowns, constant forms are folded until a fixpoint, and the remaining linear system is solved
by sparse Gaussian elimination over Fractions.
"""
import re
from fractions import Fraction

from harness import expr

_LAG_RE = re.compile(r'^([^\W\d]\w*)\((?:k|t)-1\)$')
_IC_RE = re.compile(r'^([^\W\d]\w*)\(0\)$')


class ParseProblem(ValueError):
    pass


class System(object):
    def __init__(self):
        self.eqs = {}          # var -> rhs text (simultaneous)
        self.order = []
        self.lags = {}         # lag var -> source var
        self.exo = {}          # var -> text
        self.ics = {}          # var -> text
        self.maxtime = None
        self.tol = None
        self.comments = {}
        self.duplicates = []

    def variables(self):
        return list(self.eqs) + list(self.lags) + list(self.exo)

    def exo_values(self, K):
        out = {}
        for v, txt in self.exo.items():
            vals = expr.list_eval(txt)
            if not isinstance(vals, list):
                vals = [vals] * (K + 1)
            out[v] = vals
        return out

    def initial_state(self):
        """Stated initial conditions, exogenous[0], zero otherwise."""
        st = {}
        for v in self.variables():
            st[v] = Fraction(0)
        for v, vals in self.exo_values(0).items():
            if vals:
                st[v] = vals[0]
        for v, txt in self.ics.items():
            st[v] = expr.frac_eval(txt, {})
        return st

    # ------------------------------------------------------------------------------
    def period_forms(self, k, prev, exo_vals):
        """
        Returns (known, forms): known values after constant folding, and for every remaining simultaneous variable its
        affine form over the remaining unknowns.  Raises expr.NotAffine (with .var) if an equation stays non-affine.
        """
        known = {'k': Fraction(k)}
        for v, vals in exo_vals.items():
            if len(vals) <= k:
                raise ParseProblem('exogenous %s too short' % v)
            known[v] = vals[k]
        for lv, src in self.lags.items():
            known[lv] = prev[src]
        remaining = [v for v in self.order if v not in known]
        forms = {}
        changed = True
        while changed:
            changed = False
            still = []
            for v in remaining:
                try:
                    f = expr.affine_eval(self.eqs[v], known)
                except expr.NotAffine:
                    still.append(v)
                    forms.pop(v, None)
                    continue
                # an equation x = x + c (self reference) is not a definition of a constant
                if f.is_const():
                    known[v] = f.const
                    forms.pop(v, None)
                    changed = True
                elif set(f.coef.keys()) == {v} and f.coef[v] != 1:
                    # v = c*v + d with c != 1 determines v on its own (a self-referential definition of a constant):
                    # fold it, so that products with other unknowns stay affine
                    known[v] = f.const / (1 - f.coef[v])
                    forms.pop(v, None)
                    changed = True
                else:
                    forms[v] = f
                    still.append(v)
            remaining = still
        # final pass: re-evaluate everything with the final known set
        nonaffine = []
        forms = {}
        for v in remaining:
            try:
                forms[v] = expr.affine_eval(self.eqs[v], known)
            except expr.NotAffine:
                nonaffine.append(v)
        return known, forms, nonaffine


    # ------------------------------------------------------------------------------
    _PIECE = re.compile(r'^\s*(max|min)\s*\(\s*([-+]?[0-9.]+(?:[eE][-+]?[0-9]+)?)\s*,(.*)\)\s*$', re.S)

    def _resolve_piecewise(self, known, forms, nonaffine):
        """
        Equations of the shape v = max(c, <affine>) / min(c, <affine>) (a floor or a cap on an otherwise linear
        quantity): try every assignment of branches (at most 2**4), solve the linear system, keep the assignment the
        solution is consistent with.  Returns the completed forms, or None when the equations are of another shape or no
        (or more than one distinct) consistent assignment exists.
        """
        if len(nonaffine) > 4:
            return None
        pieces = {}
        for v in nonaffine:
            m = self._PIECE.match(self.eqs[v])
            if m is None:
                return None
            try:
                inner = expr.affine_eval(m.group(3), known)
            except (expr.NotAffine, SyntaxError, ValueError):
                return None
            pieces[v] = (m.group(1), Fraction(m.group(2)), inner)
        import itertools
        found = None
        for choice in itertools.product((True, False), repeat=len(nonaffine)):
            trial = dict(forms)
            for v, take_inner in zip(nonaffine, choice):
                fn, c, inner = pieces[v]
                trial[v] = inner if take_inner else expr.Affine(c)
            unknowns = sorted(trial.keys())
            ech = Echelon()
            ok = True
            for v in unknowns:
                f = trial[v]
                row = {u: -cf for u, cf in f.coef.items()}
                row[v] = row.get(v, 0) + 1
                row = {u: cf for u, cf in row.items() if cf != 0}
                if any(u not in trial for u in row):
                    ok = False
                    break
                ech.add(row, f.const)
            if not ok or ech.inconsistent or len(ech.pivots) < len(unknowns):
                continue
            vals = ech.solution()
            consistent = True
            for v, take_inner in zip(nonaffine, choice):
                fn, c, inner = pieces[v]
                iv = inner.const + sum((cf * vals[u] for u, cf in inner.coef.items()), Fraction(0))
                if fn == 'max':
                    consistent = consistent and ((iv >= c) if take_inner else (iv <= c))
                else:
                    consistent = consistent and ((iv <= c) if take_inner else (iv >= c))
            if consistent:
                if found is not None and found[1] != vals:
                    return None
                found = (trial, vals)
        return found[0] if found is not None else None

    def solve(self, K, state0=None):
        if state0 is None:
            state0 = self.initial_state()
        exo_vals = self.exo_values(K)
        sol = Solution(self, K)
        prev = dict(state0)
        prev.setdefault('k', Fraction(0))
        sol.values.append(dict(prev))
        sol.status.append('given')
        for k in range(1, K + 1):
            known, forms, nonaffine = self.period_forms(k, prev, exo_vals)
            if nonaffine:
                forms = self._resolve_piecewise(known, forms, nonaffine)
                if forms is not None:
                    nonaffine = []
            if nonaffine:
                sol.status.append('nonaffine')
                sol.detail.append(nonaffine)
                sol.values.append(None)
                break
            unknowns = sorted(forms.keys())
            rows = []
            for v in unknowns:
                # v - form = 0   ->   coefficients over unknowns, rhs constant
                f = forms[v]
                row = {u: -c for u, c in f.coef.items()}
                row[v] = row.get(v, 0) + 1
                row = {u: c for u, c in row.items() if c != 0}
                for u in row:
                    if u not in forms:
                        raise ParseProblem('undefined name %s in equation of %s' % (u, v))
                rows.append((row, f.const))
            ech = Echelon()
            for row, rhs in rows:
                ech.add(row, rhs)
            sol.echelons.append(ech)
            if ech.inconsistent:
                sol.status.append('inconsistent')
                sol.values.append(None)
                break
            if len(ech.pivots) < len(unknowns):
                sol.status.append('singular')
                sol.values.append(None)
                sol.known.append(known)
                break
            vals = ech.solution()
            cur = dict(known)
            cur.update(vals)
            sol.status.append('unique')
            sol.values.append(cur)
            sol.known.append(known)
            prev = cur
        return sol


class Echelon(object):
    """Incremental reduced row echelon form over Fractions, rows as sparse dicts."""

    def __init__(self):
        self.pivots = {}       # pivot var -> (row dict incl. pivot with coef 1, rhs)
        self.inconsistent = False

    def reduce(self, row, rhs):
        row = dict(row)
        for p in list(row.keys()):
            if p in self.pivots and p in row:
                c = row[p]
                prow, prhs = self.pivots[p]
                for u, cu in prow.items():
                    nv = row.get(u, 0) - c * cu
                    if nv == 0:
                        row.pop(u, None)
                    else:
                        row[u] = nv
                rhs = rhs - c * prhs
        return row, rhs

    def add(self, row, rhs):
        row, rhs = self.reduce(row, rhs)
        # repeated reduction: pivots rows are kept fully reduced, so one pass suffices
        if not row:
            if rhs != 0:
                self.inconsistent = True
            return False
        # choose pivot: variable with the largest absolute coefficient (any would do over Fractions)
        p = min(row.keys())
        c = row[p]
        row = {u: cu / c for u, cu in row.items()}
        rhs = rhs / c
        # eliminate p from existing pivot rows
        for q, (qrow, qrhs) in list(self.pivots.items()):
            if p in qrow:
                cq = qrow[p]
                for u, cu in row.items():
                    nv = qrow.get(u, 0) - cq * cu
                    if nv == 0:
                        qrow.pop(u, None)
                    else:
                        qrow[u] = nv
                self.pivots[q] = (qrow, qrhs - cq * rhs)
        self.pivots[p] = (row, rhs)
        return True

    def solution(self):
        out = {}
        for p, (row, rhs) in self.pivots.items():
            if len(row) != 1:
                raise ValueError('not fully determined')
            out[p] = rhs
        return out

    def implies(self, row, rhs):
        """Is  sum row[u]*u == rhs  a consequence of the stored equations?"""
        r, c = self.reduce(row, rhs)
        return (not r) and c == 0


class Solution(object):
    def __init__(self, system, K):
        self.system = system
        self.K = K
        self.values = []       # per period: dict var -> Fraction, or None
        self.status = []       # 'given', 'unique', 'singular', 'nonaffine', 'inconsistent'
        self.detail = []
        self.echelons = []
        self.known = []

    def ok(self):
        return all(s in ('given', 'unique') for s in self.status) and len(self.values) == self.K + 1

    def series(self, var):
        return [v[var] for v in self.values]


def parse_final(text):
    """
    Own line classifier for equation text (the format emitted by Model.main(), also any plain block):
    'lhs = rhs  # comment', a section marker line containing the word exogenous (pure comment or bare word),
    X(0) = v, MaxTime = n, Err_Tolerance = x.
    """
    s = System()
    mode = 'endo'
    for raw in text.split('\n'):
        line = raw.strip()
        if not line:
            continue
        code = line.split('#', 1)[0].strip()
        comment = line.split('#', 1)[1].strip() if '#' in line else ''
        if not code:
            if 'exogenous' in line.lower():
                mode = 'exo'
            continue
        if '=' not in code:
            if 'exogenous' in code.lower():
                mode = 'exo'
                continue
            raise ParseProblem('line without "=": %r' % line)
        lhs, rhs = code.split('=', 1)
        lhs, rhs = lhs.strip(), rhs.strip()
        if '=' in rhs:
            raise ParseProblem('several "=": %r' % line)
        if lhs == 'MaxTime':
            s.maxtime = int(rhs)
            continue
        if lhs == 'Err_Tolerance':
            s.tol = rhs
            continue
        m = _IC_RE.match(lhs.replace(' ', ''))
        if m:
            s.ics[m.group(1)] = rhs
            continue
        if mode == 'exo':
            if lhs in s.exo or lhs in s.eqs or lhs in s.lags:
                s.duplicates.append(lhs)
            s.exo[lhs] = rhs
            s.comments[lhs] = comment
            continue
        if lhs in s.exo or lhs in s.eqs or lhs in s.lags:
            s.duplicates.append(lhs)
        m = _LAG_RE.match(rhs.replace(' ', ''))
        if m:
            s.lags[lhs] = m.group(1)
        else:
            s.eqs[lhs] = rhs
            s.order.append(lhs)
        s.comments[lhs] = comment
    if 't' not in s.eqs and 't' not in s.exo and 't' not in s.lags:
        s.eqs['t'] = 'k'
        s.order.append('t')
    return s
