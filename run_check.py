#!/venv/bin/python
"""
run_check.py <PROPERTY_ID> [--tier quick|thorough] [--replay FILE] [--cases N] [--family NAME]

exit 0  property held on everything explored (KNOWN-FINDING lines allowed)
exit 1  + "VIOLATION property=<id> replay=<path>"  an unlisted violation
exit 2  harness error / inconclusive (never a verdict)
"""
import argparse
import json
import os
import sys
import time

HERE = os.path.dirname(os.path.abspath(__file__))


def reexec_if_needed():
    want = {'PYTHONHASHSEED': '0', 'PYTHONDONTWRITEBYTECODE': '1', 'VERIF_CHILD': '1'}
    if os.environ.get('VERIF_CHILD') == '1' and os.environ.get('PYTHONHASHSEED') == '0':
        return
    env = dict(os.environ)
    env.update(want)
    repo = env.get('VERIF_REPO', '/repo')
    extra = [repo, HERE]
    if env.get('PYTHONPATH'):
        extra.append(env['PYTHONPATH'])
    env['PYTHONPATH'] = os.pathsep.join(extra)
    env['PYTHONWARNINGS'] = 'ignore'
    os.execve(sys.executable, [sys.executable] + sys.argv, env)


def worker_shard(args):
    from harness import core
    return core.run_shard(*args)


def worker_replay(args):
    prop_id, path = args
    from harness import core
    with open(path) as f:
        rec = json.load(f)
    try:
        core.replay_spec(prop_id, rec['family'], rec['spec'])
    except core.Violation as v:
        return (path, 'violation', v.bucket, v.message, v.signature)
    except core.Reject as r:
        return (path, 'reject', None, r.reason, None)
    except Exception:
        import traceback
        return (path, 'error', None, traceback.format_exc(), None)
    return (path, 'ok', None, '', None)


def load_known(prop_id):
    path = os.path.join(HERE, 'known_findings.json')
    if not os.path.exists(path):
        return []
    with open(path) as f:
        data = json.load(f)
    return [e for e in data.get('findings', []) if e.get('property') == prop_id and e.get('status') == 'known']


def match_known(known, bucket, signature):
    for e in known:
        if e.get('bucket') != bucket:
            continue
        if e.get('signature') is None or e.get('signature') == signature:
            return e
    return None


def main():
    reexec_if_needed()
    sys.path.insert(0, HERE)
    ap = argparse.ArgumentParser()
    ap.add_argument('prop')
    ap.add_argument('--tier', default=os.environ.get('VERIF_TIER', 'quick'), choices=['quick', 'thorough'])
    ap.add_argument('--replay', default=None)
    ap.add_argument('--cases', type=int, default=None, help='override the number of cases per family')
    ap.add_argument('--family', default=None)
    ap.add_argument('--no-evidence', action='store_true')
    ap.add_argument('--jobs', type=int, default=None)
    ns = ap.parse_args()
    prop_id = ns.prop.upper()
    os.environ['VERIF_TIER'] = ns.tier          # inherited by the spawned workers: generators may size up in 'thorough'
    try:
        seed = int(os.environ.get('VERIF_SEED', '1'))
    except ValueError:
        seed = 1
    t0 = time.time()
    try:
        from harness import core
        core.quiet_repo_import()
        mod = core.load_property(prop_id)
    except Exception:
        import traceback
        traceback.print_exc()
        print('HARNESS-ERROR property=%s could not load harness or repository' % prop_id)
        sys.exit(2)

    import multiprocessing
    from concurrent.futures import ProcessPoolExecutor
    ctx = multiprocessing.get_context('spawn')
    jobs = ns.jobs or min(16, os.cpu_count() or 1)

    # ------------------------------------------------------------------ replay mode
    if ns.replay:
        with ProcessPoolExecutor(max_workers=1, mp_context=ctx, max_tasks_per_child=1) as ex:
            path, status, bucket, msg, sig = list(ex.map(worker_replay, [(prop_id, ns.replay)]))[0]
        if status == 'violation':
            print('replay: %s: %s' % (bucket, msg))
            print('VIOLATION property=%s replay=%s' % (prop_id, ns.replay))
            sys.exit(1)
        if status == 'error':
            print(msg)
            print('HARNESS-ERROR property=%s replay failed inside the harness' % prop_id)
            sys.exit(2)
        print('replay: %s (%s) %s' % (status, ns.replay, msg))
        sys.exit(0)

    known = load_known(prop_id)
    violations = []       # (bucket, signature, family, spec, message)
    known_hits = {}
    harness_errors = []

    # ------------------------------------------------------------------ regression replays
    reg_dir = os.path.join(HERE, 'replays', prop_id, 'regressions')
    reg_files = []
    if os.path.isdir(reg_dir):
        reg_files = sorted(os.path.join(reg_dir, f) for f in os.listdir(reg_dir) if f.endswith('.json'))
    reg_results = []
    if reg_files:
        with ProcessPoolExecutor(max_workers=jobs, mp_context=ctx, max_tasks_per_child=1) as ex:
            reg_results = list(ex.map(worker_replay, [(prop_id, p) for p in reg_files]))
    reg_fail_paths = {}
    for path, status, bucket, msg, sig in reg_results:
        if status == 'violation':
            k = match_known(known, bucket, sig)
            if k is not None:
                known_hits.setdefault((bucket, sig), [k, 0])[1] += 1
            else:
                with open(path) as f:
                    rec = json.load(f)
                violations.append((bucket, sig, rec['family'], rec['spec'], msg))
                reg_fail_paths[(bucket, core.canonical(rec['spec']))] = path
        elif status == 'error':
            harness_errors.append('regression replay %s:\n%s' % (path, msg))

    # ------------------------------------------------------------------ generated search
    tasks = []
    fams = [f for f in mod.FAMILIES if ns.family in (None, f.name)]
    for fi, fam in enumerate(fams):
        total = ns.cases if ns.cases is not None else (fam.quick if ns.tier == 'quick' else fam.thorough)
        if total <= 0:
            continue
        shards = max(1, min(fam.max_shards, jobs, total))
        per = (total + shards - 1) // shards
        shrink_budget = 20.0 if ns.tier == 'quick' else 120.0
        for s in range(shards):
            tasks.append((prop_id, fam.name, per, seed * 100003 + fi * 1009 + s, shrink_budget))
    results = []
    if tasks:
        with ProcessPoolExecutor(max_workers=jobs, mp_context=ctx, max_tasks_per_child=1) as ex:
            results = list(ex.map(worker_shard, tasks))

    evaluations = 0
    nontrivial = set()
    labels = {}
    rejected = {}
    samples = []
    per_family = {}
    for r in results:
        evaluations += r['evaluations']
        pf = per_family.setdefault(r['family'], {'evaluations': 0, 'nontrivial': set()})
        pf['evaluations'] += r['evaluations']
        for h in r['nontrivial']:
            nontrivial.add(r['family'] + ':' + h)
            pf['nontrivial'].add(h)
        for k, v in r['labels'].items():
            labels[r['family'] + '/' + k] = labels.get(r['family'] + '/' + k, 0) + v
        for k, v in r['rejected'].items():
            rejected[r['family'] + '/' + k] = rejected.get(r['family'] + '/' + k, 0) + v
        if len([s for s in samples if s['family'] == r['family']]) < 2:
            for s in r['samples'][:1]:
                samples.append({'family': r['family'], 'spec': s})
        for e in r['harness_errors']:
            harness_errors.append('family %s seed %s:\n%s' % (r['family'], r['seed'], e))
        for bucket, lst in r['failures'].items():
            for size, spec, msg, sig in lst:
                k = match_known(known, bucket, sig)
                if k is not None:
                    known_hits.setdefault((bucket, sig), [k, 0])[1] += 1
                else:
                    violations.append((bucket, sig, r['family'], spec, msg))

    # ------------------------------------------------------------------ report
    wall = time.time() - t0
    # one replay file per bucket: the smallest failing spec
    by_bucket = {}
    for bucket, sig, famname, spec, msg in violations:
        cur = by_bucket.get(bucket)
        size = len(core.canonical(spec))
        if cur is None or size < cur[0]:
            by_bucket[bucket] = (size, sig, famname, spec, msg)
    violation_lines = []
    for bucket in sorted(by_bucket):
        size, sig, famname, spec, msg = by_bucket[bucket]
        reg = reg_fail_paths.get((bucket, core.canonical(spec)))
        if reg is not None:
            path = reg
        else:
            d = os.path.join(HERE, 'replays', prop_id)
            os.makedirs(d, exist_ok=True)
            path = os.path.join(d, '%s_%s.json' % (bucket.replace('/', '_'), core.spec_hash(spec)))
            with open(path, 'w') as f:
                json.dump({'property': prop_id, 'family': famname, 'bucket': bucket, 'signature': sig,
                           'message': msg, 'spec': spec}, f, indent=1, sort_keys=True, default=str)
        print('violation bucket=%s family=%s: %s' % (bucket, famname, msg[:600]))
        violation_lines.append('VIOLATION property=%s replay=%s' % (prop_id, path))
    for (bucket, sig), (entry, n) in sorted(known_hits.items(), key=lambda kv: str(kv[0])):
        print('KNOWN-FINDING: property=%s %s [bucket=%s, %d cases]' % (prop_id, entry.get('what', ''), bucket, n))

    if not ns.no_evidence and evaluations > 0 and ns.family is None:
        ev = {
            'property_id': prop_id,
            'tier': ns.tier,
            'seed': seed,
            'level': 'exploration',
            'coverage': {
                'evaluations': evaluations,
                'distinct_nontrivial': len(nontrivial),
                'rule': mod.RULE,
                'samples': samples[:10],
                'classes': dict(sorted(labels.items())),
                'rejected': dict(sorted(rejected.items())),
                'per_family': {k: {'evaluations': v['evaluations'], 'distinct_nontrivial': len(v['nontrivial'])}
                               for k, v in sorted(per_family.items())},
                'regression_replays': len(reg_files),
                'excluded_known': {('%s' % (k[0],)): v[1] for k, v in known_hits.items()},
                'violation_buckets': sorted(by_bucket.keys()),
            },
            'assumptions': list(mod.ASSUMPTIONS),
            'wall_s': round(wall, 2),
            'violations': len(by_bucket),
        }
        os.makedirs(os.path.join(HERE, 'evidence'), exist_ok=True)
        with open(os.path.join(HERE, 'evidence', prop_id + '.json'), 'w') as f:
            json.dump(ev, f, indent=1, sort_keys=True, default=str)

    print('%s tier=%s seed=%d: %d cases, %d distinct non-trivial, %d regression replays, %d violation buckets, '
          '%d known, %.1fs' % (prop_id, ns.tier, seed, evaluations, len(nontrivial), len(reg_files), len(by_bucket),
                               len(known_hits), wall))
    for k, v in sorted(per_family.items()):
        print('  family %-28s %7d cases %7d non-trivial' % (k, v['evaluations'], len(v['nontrivial'])))
    if ns.cases is None and ns.family is None and not violation_lines and not harness_errors:
        # vacuity guard: a generator that stopped producing non-trivial cases, or a family that rejects almost
        # everything, is a harness problem, not a pass
        for k, v in sorted(per_family.items()):
            rej = sum(n for key, n in rejected.items() if key.startswith(k + '/'))
            if v['evaluations'] > 0 and (len(v['nontrivial']) == 0 or rej > 0.5 * v['evaluations']):
                harness_errors.append('family %s is vacuous: %d cases, %d non-trivial, %d rejected' %
                                      (k, v['evaluations'], len(v['nontrivial']), rej))
    if harness_errors:
        seen_err = set()
        for e in harness_errors:
            tail = '\n'.join(e.strip().split('\n')[-12:])
            if tail in seen_err or len(seen_err) >= 3:
                continue
            seen_err.add(tail)
            print(e.split('\n')[0])
            print(tail)
        print('HARNESS-ERROR property=%s (%d errors inside the harness; no verdict)' % (prop_id, len(harness_errors)))
        sys.exit(2)
    if violation_lines:
        for line in violation_lines:
            print(line)
        sys.exit(1)
    sys.exit(0)


if __name__ == '__main__':
    main()
