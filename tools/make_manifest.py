#!/venv/bin/python
"""Regenerate MANIFEST.json from the property modules that exist (keeps the manifest valid at all times)."""
import json
import os
import sys

HERE = os.path.dirname(os.path.dirname(os.path.abspath(__file__)))
sys.path.insert(0, HERE)

ALL = ['C%02d' % i for i in range(1, 21)]


def main():
    checks = []
    na = []
    for pid in ALL:
        path = os.path.join(HERE, 'harness', 'props', pid.lower() + '.py')
        if not os.path.exists(path):
            na.append({'property_id': pid, 'reason': 'check not built yet in this round (designed in DESIGN.md section 3; '
                                                       'the technique applies, the code is pending)'})
            continue
        src = open(path).read()
        ns = {}
        # read the MANIFEST_INFO literal without importing hypothesis
        start = src.index('MANIFEST_INFO = ')
        end = src.index('\n}\n', start) + 3
        exec(src[start:end], ns)
        info = ns['MANIFEST_INFO']
        checks.append({
            'property_id': pid,
            'quick_cmd': '/venv/bin/python run_check.py %s --tier quick' % pid,
            'thorough_cmd': '/venv/bin/python run_check.py %s --tier thorough' % pid,
            'evidence_file': 'evidence/%s.json' % pid,
            'replay_cmd_template': '/venv/bin/python run_check.py %s --replay {path}' % pid,
            'engine': 'hypothesis-runner',
            'level_claimed': {'category': 'exploration', 'text': info['level_text'], 'design_ref': info['design_ref']},
            'level_note': info['level_note'],
            'technique': info['technique'],
        })
    manifest = {
        'version': 1,
        'setup_cmd': '/venv/bin/python -c "import hypothesis" 2>/dev/null || /venv/bin/pip install --no-index '
                     '--find-links /opt/veriftools/wheels hypothesis',
        'hooks': {
            'guard': 'SFC_MODELS_VERIF',
            'enable': 'no instrumentation hooks are needed: every observation goes through the public API; '
                      'checks import sfc_models from /repo\'s working tree (PYTHONPATH=/repo)',
            'baseline_off_cmd': 'cd /repo && /venv/bin/python -m pytest -ra -q -p no:cacheprovider --timeout=900 '
                                '--continue-on-collection-errors',
            'source_commits': [],
            'add_only': True,
        },
        'engines': [{
            'name': 'hypothesis-runner',
            'path': 'run_check.py',
            'serves_properties': [c['property_id'] for c in checks],
            'kind_free_text': 'Hypothesis 6.168 strategies (structured generators, operation lists for histories) sharded '
                              'over 16 fresh processes; collect-then-shrink with root-cause buckets; explicit oracles '
                              '(own lexer, exact rational reference solver, reference ledgers, differential and '
                              'metamorphic twins); JSON replay files that bypass the library',
        }],
        'checks': checks,
        'not_applicable': na,
        'notes': 'All checks: cd /verif && /venv/bin/python run_check.py <ID> --tier quick|thorough; VERIF_SEED honoured; '
                 'exit 0/1/2 = held / VIOLATION / harness error (no verdict). Known findings: known_findings.json.',
    }
    with open(os.path.join(HERE, 'MANIFEST.json'), 'w') as f:
        json.dump(manifest, f, indent=1)
    print('MANIFEST.json: %d checks, %d not_applicable' % (len(checks), len(na)))
    try:
        import jsonschema
        jsonschema.validate(manifest, json.load(open('/root/.vp/MANIFEST.schema.json')))
        print('schema ok')
    except ImportError:
        pass


if __name__ == '__main__':
    main()
