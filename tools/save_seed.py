#!/venv/bin/python
"""
save_seed.py ID WORKTREE "caught by ..." "needs ..." [--initially-missed "what was strengthened"]

Copies a sub-agent's seeded change (MUTANT/patch.diff, demo.py, notes.md) into /verif/seeded/<ID>[suffix]/ and writes meta.json.
"""
import argparse
import json
import os
import shutil
import sys

HERE = os.path.dirname(os.path.dirname(os.path.abspath(__file__)))


def main():
    ap = argparse.ArgumentParser()
    ap.add_argument('id')
    ap.add_argument('worktree')
    ap.add_argument('caught_by')
    ap.add_argument('needs')
    ap.add_argument('--initially-missed', default=None)
    ap.add_argument('--suffix', default='')
    ap.add_argument('--tests', default='1 failed, 221 passed (same single known failure as the baseline)')
    ns = ap.parse_args()
    src = os.path.join(ns.worktree, 'MUTANT')
    dst = os.path.join(HERE, 'seeded', ns.id + ns.suffix)
    os.makedirs(dst, exist_ok=True)
    for f in ('patch.diff', 'demo.py', 'notes.md'):
        if os.path.exists(os.path.join(src, f)):
            shutil.copy(os.path.join(src, f), os.path.join(dst, f))
    meta = {
        'property': ns.id,
        'origin': 'fresh sub-agent given only the property text and its own scratch worktree of /repo (nothing from /verif)',
        'needs_to_manifest': ns.needs,
        'confirmed': {
            'existing_tests_with_change': ns.tests,
            'demo_with_change': 'exit 1 (FAIL)',
            'demo_without_change': 'exit 0 (PASS)',
            'how': 'tools/try_patch.py seeded/%s/patch.diff --demo seeded/%s/demo.py %s  (scratch copy of /repo under /var/tmp, '
                   'removed afterwards)' % (ns.id + ns.suffix, ns.id + ns.suffix, ns.id),
        },
        'caught_by': ns.caught_by,
        'initially_missed': ns.initially_missed,
    }
    with open(os.path.join(dst, 'meta.json'), 'w') as f:
        json.dump(meta, f, indent=1)
    print('saved', dst)


if __name__ == '__main__':
    main()
