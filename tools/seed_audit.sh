#!/bin/bash
# Re-run every seeded change against the check(s) named in its meta.json ("property" field); prints one line per seed.
cd "$(dirname "$0")/.."
for d in seeded/*/; do
  id=$(basename "$d")
  prop=${id%%_*}
  out=$(/venv/bin/python tools/try_patch.py --no-tests "$d/patch.diff" "$prop" 2>&1)
  res=$(echo "$out" | grep -E "^$prop: " | head -1)
  bucket=$(echo "$out" | grep -E "violation bucket" | head -1 | sed -e 's/.*bucket=\([^ ]*\).*/\1/')
  echo "$id  $res  $bucket"
done
