#!/venv/bin/python
"""
Harness self-test (DESIGN.md 2.3 / 2.4).  Not a property check: it tests the *harness*.
  1. the exact reference solver agrees with the real iterative solver on the bundled book models
     (started from the real solver's k=0 state), within the real solver's tolerance;
  2. the economy generator reaches every interesting class in at least 5% of 400 generated economies.
exit 0 = harness fine, exit 2 = harness problem.
"""
import os
import sys
import warnings

HERE = os.path.dirname(os.path.dirname(os.path.abspath(__file__)))
sys.path.insert(0, HERE)
sys.path.insert(0, os.environ.get('VERIF_REPO', '/repo'))
warnings.simplefilter('ignore')


def book_models():
    from fractions import Fraction
    from harness import refsolve
    from sfc_models.gl_book.chapter3 import SIM, SIMEX1
    from sfc_models.gl_book.chapter4 import PC
    from sfc_models.gl_book.chapter6 import REG
    worst = 0.0
    for cls in (SIM, SIMEX1, PC, REG):
        mod = cls('C', use_book_exogenous=True).build_model()
        c = mod['C']
        if cls is PC:
            c['HH'].SetEquationRightHandSide('WGT_DEP', '0.7')
        if cls is REG:
            c['HH_N'].SetEquationRightHandSide('WGT_DEP', '0.7')
            c['HH_S'].SetEquationRightHandSide('WGT_DEP', '0.65')
        mod.MaxTime = 6
        if cls is not REG:
            mod.EquationSolver.ParameterErrorTolerance = 1e-10
        text = mod.main()
        system = refsolve.parse_final(text)
        ts = mod.EquationSolver.TimeSeries
        st0 = {k: Fraction(v[0]) for k, v in ts.items()}
        sol = system.solve(6, st0)
        if not sol.ok():
            print('selftest: reference solver cannot solve %s: %r' % (cls.__name__, sol.status))
            return False
        for k in range(1, 7):
            for name, series in ts.items():
                d = abs(float(sol.values[k][name]) - series[k])
                worst = max(worst, d / max(1.0, abs(series[k])))
        print('selftest: %-7s reference vs real solver, worst relative difference so far %.3g' % (cls.__name__, worst))
    return worst < 1e-5      # REG runs at the model's own tolerance 1e-6


def generator_classes():
    from hypothesis import given, settings, seed, HealthCheck
    from harness import econ
    from harness.props import c01
    counts = {}
    n = [0]

    @seed(20240917)
    @settings(max_examples=400, database=None, deadline=None, suppress_health_check=list(HealthCheck))
    @given(econ.economy())
    def collect(spec):
        n[0] += 1
        labels, feats = c01.classify(spec)
        for f in feats:
            counts[f] = counts.get(f, 0) + 1
        counts['zones:%d' % len(spec['zones'])] = counts.get('zones:%d' % len(spec['zones']), 0) + 1

    collect()
    need = ['federated', 'gov:consolidated', 'gov:treasury_cb', 'gov:gold', 'gov:gold_cb', 'hh:household', 'hh:expectations',
            'capitalists', 'bus:single', 'bus:multi', 'money', 'deposit', 'weights', 'two-households', 'cross-gift',
            'cross-import', 'intra-import', 'intra-gift', 'initial-stocks', 'zones:1', 'zones:2', 'zones:3', 'bonds',
            'probes', 'probe:loginfo', 'probe:other-model', 'probe:zone-sectors', 'external:end', 'user-exclusions',
            'related-currency-codes']
    ok = True
    # 5 % of the generated economies per class; intra-zone gifts need a federated zone with two populated regions and
    # compete with every other link kind: 3 % (they are also reached through the gift-variable reuse)
    floor = {'intra-gift': 0.03}
    for k in need:
        share = counts.get(k, 0) / float(n[0])
        low = floor.get(k, 0.05)
        flag = '' if share >= low else '   <-- below %d%%' % int(low * 100)
        if share < low:
            ok = False
        print('selftest: class %-18s %5.1f%%%s' % (k, 100 * share, flag))
    return ok


if __name__ == '__main__':
    ok1 = book_models()
    ok2 = generator_classes()
    print('selftest: %s' % ('ok' if ok1 and ok2 else 'FAILED'))
    sys.exit(0 if ok1 and ok2 else 2)
