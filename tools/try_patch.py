#!/venv/bin/python
"""
try_patch.py [--no-tests] [--tier quick] [--revert-commit SHA] PATCH|- ID [ID...]

Mutation audit helper (DESIGN.md 2.7).  Copies /repo's working tree to a scratch directory under
/var/tmp, applies PATCH (a unified diff; or reverts a commit with --revert-commit), runs the pinned
pytest baseline in the copy, then runs each listed check against the copy (VERIF_REPO=<copy>,
evidence not written).  Prints one line per check: detected / MISSED, and removes the copy.
Never touches /repo.
"""
import argparse
import json
import os
import shutil
import subprocess
import sys
import tempfile
import time

HERE = os.path.dirname(os.path.dirname(os.path.abspath(__file__)))


def sh(cmd, cwd=None, env=None, timeout=3600):
    p = subprocess.run(cmd, cwd=cwd, env=env, shell=isinstance(cmd, str), stdout=subprocess.PIPE,
                       stderr=subprocess.STDOUT, text=True, timeout=timeout)
    return p.returncode, p.stdout


def main():
    ap = argparse.ArgumentParser()
    ap.add_argument('patch')
    ap.add_argument('ids', nargs='+')
    ap.add_argument('--no-tests', action='store_true')
    ap.add_argument('--tier', default='quick')
    ap.add_argument('--revert-commit', default=None)
    ap.add_argument('--seed', default='1')
    ap.add_argument('--cases', default=None)
    ap.add_argument('--family', default=None)
    ap.add_argument('--demo', default=None, help='demonstration program: must exit 0 on /repo and non-zero on the patched copy')
    ns = ap.parse_args()
    scratch = tempfile.mkdtemp(prefix='sfcm_', dir='/var/tmp')
    copy = os.path.join(scratch, 'repo')
    try:
        rc, out = sh('git -C /repo worktree list >/dev/null; cp -r /repo %s' % copy)
        if rc != 0:
            print(out)
            sys.exit(2)
        if ns.revert_commit:
            rc, out = sh('git -c user.name=a -c user.email=a@b revert --no-edit --no-commit %s' % ns.revert_commit, cwd=copy)
        elif ns.patch != '-':
            rc, out = sh('git apply --whitespace=nowarn %s' % os.path.abspath(ns.patch), cwd=copy)
            if rc != 0:
                rc, out = sh('patch -p1 < %s' % os.path.abspath(ns.patch), cwd=copy)
        if rc != 0:
            print('PATCH DOES NOT APPLY\n' + out)
            sys.exit(2)
        result = {'patch': ns.patch, 'revert': ns.revert_commit}
        if not ns.no_tests:
            env = dict(os.environ)
            env['PYTHONPATH'] = copy
            rc, out = sh('/venv/bin/python -m pytest -q -p no:cacheprovider --timeout=900 --continue-on-collection-errors '
                         '2>&1 | tail -3', cwd=copy, env=env)
            tail = out.strip().split('\n')[-1]
            result['tests'] = tail
            print('tests: ' + tail)
        if ns.demo:
            for label, root, want_fail in (('patched', copy, True), ('unpatched', '/repo', False)):
                env = dict(os.environ)
                env['PYTHONPATH'] = root
                env['PYTHONWARNINGS'] = 'ignore'
                rc, out = sh([sys.executable, os.path.abspath(ns.demo)], cwd=scratch, env=env, timeout=900)
                ok = (rc != 0) == want_fail
                print('demo on %s tree: exit %d (%s)' % (label, rc, 'as expected' if ok else 'UNEXPECTED'))
                if not ok:
                    print(out[-1500:])
        for pid in ns.ids:
            env = dict(os.environ)
            env['VERIF_REPO'] = copy
            env['VERIF_SEED'] = ns.seed
            env.pop('VERIF_CHILD', None)
            t0 = time.time()
            cmd = [sys.executable, os.path.join(HERE, 'run_check.py'), pid, '--tier', ns.tier, '--no-evidence']
            if ns.cases:
                cmd += ['--cases', ns.cases]
            if ns.family:
                cmd += ['--family', ns.family]
            rc, out = sh(cmd, cwd=HERE, env=env)
            dt = time.time() - t0
            lines = [l for l in out.split('\n') if l.startswith(('violation bucket', 'HARNESS', 'VIOLATION'))]
            status = {0: 'MISSED', 1: 'detected', 2: 'HARNESS-ERROR'}.get(rc, 'rc=%d' % rc)
            print('%s: %s in %.1fs' % (pid, status, dt))
            for l in lines[:6]:
                print('   ' + l[:300])
            if rc == 2:
                print(out[-3000:])
            # replay files written for the copy are not findings on /repo: drop them
            for l in out.split('\n'):
                if l.startswith('VIOLATION') and 'replay=' in l:
                    path = l.split('replay=')[1].strip()
                    if '/regressions/' not in path and os.path.exists(path):
                        os.remove(path)
    finally:
        shutil.rmtree(scratch, ignore_errors=True)


if __name__ == '__main__':
    main()
